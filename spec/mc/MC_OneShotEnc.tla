---------------------------- MODULE MC_OneShotEnc ----------------------------
(***************************************************************************)
(* Layer I of Encoding::encode (ImplOneShotEnc) judged by the one-shot     *)
(* rule of the contract monitor (MiscMonitor!MonOneShotEncode: bytes with  *)
(* numeric character references, encoding used, flag, borrow promise) on   *)
(* every text of up to MaxItems scalar values over a class alphabet.       *)
(* Export prints the model's prediction per text for the replay.           *)
(***************************************************************************)
EXTENDS ImplOneShotEnc, MiscMonitor, TLCExt

CONSTANTS EncName, Alphabet, MaxItems

VARIABLE text
vars == <<text>>

Init == text = <<>>
Stage(x) == Len(text) < MaxItems /\ text' = Append(text, x)
Next == \E x \in Alphabet : Stage(x)
Spec == Init /\ [][Next]_vars

Predict == OneShotEncode(EncName, text)

EvOf ==
  LET r == Predict IN
  [ev |-> "OE", h |-> 1, enc |-> EncName, run |-> 0, tail |-> text, echo |-> TRUE, out |-> r.bytes, used |-> r.used,
   had |-> r.had, borrowed |-> r.borrowed, aliases |-> r.borrowed, panic |-> r.panic, stream |-> ""]

NoViolation == MonOneShotEncode(XInit, EvOf).viol = <<>>

Export ==
  LET r == Predict IN
  PrintT(<<"HIST", ToJson([enc |-> EncName, text |-> text,
                           pred |-> [out |-> r.bytes, used |-> r.used, had |-> r.had, borrowed |-> r.borrowed, panic |-> r.panic,
                                     allocs |-> r.allocs]])>>)
=============================================================================
