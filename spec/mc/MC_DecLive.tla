------------------------------ MODULE MC_DecLive ------------------------------
(***************************************************************************)
(* C08, liveness form.  Layer I x monitor as in MC_Dec, without the        *)
(* history variable and with the monitor's stream-length counters          *)
(* normalised away (so the state graph is finite without a VIEW, which     *)
(* TLC's liveness checking does not support).  Under weak fairness of "the *)
(* caller raises `last` and calls with the documented minimum capacity",   *)
(* every behaviour reaches the end of the stream: the documented caller    *)
(* loop terminates for every stream over the alphabet, every cut and every *)
(* interleaving with larger capacities.                                    *)
(***************************************************************************)
EXTENDS ImplDecoder

CONSTANTS EncName, ModeName, SinkName, Repl, Alphabet, MaxPend, Caps

VARIABLES d, m, staged, eos
vars == <<d, m, staged, eos>>

NewEv == [ev |-> "N", h |-> 1, enc |-> EncName, mode |-> ModeName, sink |-> SinkName, repl |-> Repl, bound |-> FALSE]

Normalize(mm) == [mm EXCEPT !.ctr = ZeroCtr, !.w.n = 0, !.wc.n = 0]

Init ==
  /\ d = NewDecoder(EncName, ModeName)
  /\ m = Normalize(MonNew(MonInit, NewEv))
  /\ staged = <<>>
  /\ eos = FALSE

Live == ~m.done /\ ~m.desync

Stage(b) ==
  /\ Live /\ ~eos /\ Len(staged) < MaxPend
  /\ staged' = Append(staged, b)
  /\ UNCHANGED <<d, m, eos>>

Invoke(cap, last) ==
  /\ Live /\ (eos => last)
  /\ LET r == Decode(d, staged, cap, last, SinkName, Repl)
         ev == [ev |-> "D", src |-> staged, cap |-> cap, last |-> last, res |-> r.res, ml |-> r.ml, ma |-> r.ma,
                read |-> r.read, written |-> r.written,
                out |-> IF U8(SinkName) THEN ScalarsToUtf8(r.out) ELSE ScalarsToUtf16(r.out),
                had |-> r.had, enc |-> r.d.enc, q |-> FALSE, alt |-> <<>>, guard |-> TRUE]
     IN  /\ d' = r.d
         /\ m' = Normalize(MonDecode(m, ev))
         /\ staged' = IF r.res = "P" THEN staged ELSE SubSeq(staged, r.read + 1, Len(staged))
         /\ eos' = (eos \/ last)

Next == (\E b \in Alphabet : Stage(b)) \/ (\E cap \in Caps, last \in BOOLEAN : Invoke(cap, last))

MinCapacity == MinCap(SinkName)

LiveSpec == Init /\ [][Next]_vars /\ WF_vars(Invoke(MinCapacity, TRUE))

NoViolation == m.viol = <<>>
Termination == <>(m.done \/ m.desync)
=============================================================================
