SPECIFICATION Spec
CONSTANTS
  EncName = "Big5"
  ModeName = "off"
  SinkName = "utf8"
  Repl = FALSE
  Alphabet = {65, 128, 164}
  MaxPend = 2
  Caps = {4, 64}
INVARIANT NoViolation
VIEW View
CHECK_DEADLOCK FALSE
