---------------------------- MODULE MC_StrZeroing ----------------------------
(* C05, design level: see StrZeroing.tla.  K stands for MAX_STRIDE_SIZE; G is the width of garbage the raw
   conversion may leave (G <= K for the non-UTF-8 converters, 0 for the UTF-8 decoder). *)
EXTENDS StrZeroing

CONSTANTS MaxLen, K, GarbageBytes

VARIABLES old, w, newtext, garbage, isUtf8
vars == <<old, w, newtext, garbage, isUtf8>>

Chars == {<<97>>, <<195, 169>>, <<226, 130, 172>>, <<240, 159, 146, 169>>}

RECURSIVE TextsOfLen(_)
\* all valid texts of exactly n bytes built from the four characters
TextsOfLen(n) ==
  IF n = 0 THEN {<<>>}
  ELSE UNION {{c \o t : t \in TextsOfLen(n - Len(c))} : c \in {c \in Chars : Len(c) <= n}}

Init ==
  /\ \E n \in 0..MaxLen : old \in TextsOfLen(n)
  /\ w \in 0..Len(old)
  /\ newtext \in TextsOfLen(w)
  /\ isUtf8 \in BOOLEAN
  /\ garbage \in IF isUtf8 THEN {<<>>} ELSE UNION {[1..g -> GarbageBytes] : g \in 0..Min(K, Len(old) - w)}

Next == UNCHANGED vars
Spec == Init /\ [][Next]_vars

AfterRaw == [i \in 1..Len(old) |-> IF i <= w THEN newtext[i]
                                   ELSE IF i <= w + Len(garbage) THEN garbage[i - w] ELSE old[i]]

ResultValid == Utf8WellFormed(CleanUp(AfterRaw, w, isUtf8, K))

\* the written prefix is untouched by the clean-up
PrefixKept == SubSeq(CleanUp(AfterRaw, w, isUtf8, K), 1, w) = newtext
=============================================================================
