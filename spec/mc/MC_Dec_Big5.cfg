SPECIFICATION Spec
CONSTANTS
  EncName = "Big5"
  ModeName = "off"
  SinkName = "utf8"
  Repl = FALSE
  Alphabet = {32, 64, 128, 135, 136, 98, 164, 254, 255}
  MaxPend = 3
  Caps = {4, 5, 6, 7, 8, 64}
INVARIANT NoViolation
VIEW View
CHECK_DEADLOCK FALSE
