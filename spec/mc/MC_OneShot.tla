----------------------------- MODULE MC_OneShot -----------------------------
(***************************************************************************)
(* Layer I of the non-streaming decode API (ImplOneShot) judged by the     *)
(* one-shot rule of the contract monitor (MiscMonitor!MonOneShotDecode:    *)
(* text, encoding used, error flag, None iff malformed, borrow promise)    *)
(* on EVERY input of length <= MaxBytes over a class alphabet - in         *)
(* particular on the inputs whose replacement characters outgrow the first *)
(* allocation, so that the rest is decoded after String::reserve.          *)
(* Export prints, per input, the model's prediction for the four entry     *)
(* points; the runner replays the inputs on the real API and compares.     *)
(***************************************************************************)
EXTENDS ImplOneShot, MiscMonitor, TLCExt

CONSTANTS EncName, Alphabet, MaxBytes

VARIABLE input
vars == <<input>>

Apis == <<"decode", "decode_with_bom_removal", "decode_without_bom_handling", "decode_without_bom_handling_and_without_replacement">>

Init == input = <<>>
Stage(b) == Len(input) < MaxBytes /\ input' = Append(input, b)
Next == \E b \in Alphabet : Stage(b)
Spec == Init /\ [][Next]_vars

Predict(api) == OneShotDecode(EncName, api, input)

EvOf(api) ==
  LET r == Predict(api) IN
  [ev |-> "OD", h |-> 1, api |-> api, enc |-> EncName, run |-> 0, tail |-> input, echo |-> TRUE, out |-> r.text,
   used |-> r.used, had |-> r.had, none |-> r.none, borrowed |-> r.borrowed, aliases |-> r.borrowed, panic |-> r.panic,
   stream |-> ""]

\* C11 on the model: the monitor records no violation for any entry point on this input
NoViolation == \A j \in 1..Len(Apis) : MonOneShotDecode(XInit, EvOf(Apis[j])).viol = <<>>

\* Layer I's Encoding::for_bom agrees with the BOM table of the contract layer on this input (C10)
ForBomOK ==
  LET b == ForBomImpl(input)
  IN  MonForBom(XInit, [ev |-> "BM", h |-> 1, bytes |-> input, name |-> b.enc, len |-> b.len]).viol = <<>>

\* the second allocation is really exercised somewhere in the explored space (vacuity guard, read from the export)
Export ==
  PrintT(<<"HIST", ToJson([enc |-> EncName, input |-> input,
                           pred |-> [j \in 1..Len(Apis) |->
                                       LET r == Predict(Apis[j])
                                       IN  [api |-> Apis[j], out |-> r.text, used |-> r.used, had |-> r.had, none |-> r.none,
                                            borrowed |-> r.borrowed, panic |-> r.panic, allocs |-> r.allocs]]])>>)
=============================================================================
