------------------------------- MODULE MC_Dec -------------------------------
(***************************************************************************)
(* Layer I (implementation-shaped Decoder) composed with Layer C (the      *)
(* contract monitor): every interleaving of Stage(b) - the driver appends  *)
(* one byte to the next source buffer - and Invoke(cap, last) - one call   *)
(* of decode_to_* with the staged bytes - over a class-representative      *)
(* alphabet.  Unconsumed bytes stay staged (the caller re-pushes them).    *)
(* The monitor state is position-independent, so streams of any length are *)
(* covered by a finite state graph.                                        *)
(***************************************************************************)
EXTENDS ImplDecoder, StrZeroing, TLCExt

CONSTANTS EncName, ModeName, SinkName, Repl, Alphabet, MaxPend, Caps

VARIABLES d, m, staged, eos, hist
vars == <<d, m, staged, eos, hist>>

NewEv == [ev |-> "N", h |-> 1, enc |-> EncName, mode |-> ModeName, sink |-> SinkName, repl |-> Repl, bound |-> FALSE]

Init ==
  /\ d = NewDecoder(EncName, ModeName)
  /\ m = MonNew(MonInit, NewEv)
  /\ staged = <<>>
  /\ eos = FALSE
  /\ hist = <<>>

Live == ~m.done /\ ~m.desync

Stage(b) ==
  /\ Live /\ ~eos /\ Len(staged) < MaxPend
  /\ staged' = Append(staged, b)
  /\ UNCHANGED <<d, m, eos, hist>>

\* the receivers of Layer I: decode_to_str* = decode_to_utf8* into the bytes of the &mut str followed by the clean-up of
\* StrZeroing (K = MAX_STRIDE_SIZE = 16, skipped when the decoder's encoding is UTF-8 after the call); the destination holds
\* the harness's filler before the call (3-byte characters, then 'y').  decode_to_string* = decode_to_utf8* into the spare
\* capacity (the String is empty before the call; no reallocation).
Filler(n) == [i \in 1..n |-> IF i <= 3 * (n \div 3) THEN <<226, 130, 172>>[((i - 1) % 3) + 1] ELSE 121]
StrPost(r, cap) ==
  LET out == ScalarsToUtf8(r.out)
      old == Filler(cap)
  IN  IF r.res = "P" THEN old
      ELSE CleanUp(out \o SubSeq(old, Len(out) + 1, cap), Len(out), r.d.enc = "UTF-8", 16)

EvOf(r, src, cap, last) ==
  [ev |-> "D", src |-> src, cap |-> cap, last |-> last, res |-> r.res, ml |-> r.ml, ma |-> r.ma, read |-> r.read,
   written |-> r.written, out |-> IF U8(SinkName) THEN ScalarsToUtf8(r.out) ELSE ScalarsToUtf16(r.out),
   had |-> r.had, enc |-> r.d.enc, q |-> FALSE, alt |-> <<>>, guard |-> TRUE]
  @@ (IF SinkName = "str" THEN [post |-> StrPost(r, cap)]
      ELSE IF SinkName = "string" THEN [pre |-> <<>>, post |-> ScalarsToUtf8(r.out), same |-> TRUE]
      ELSE <<>>)

Invoke(cap, last) ==
  /\ Live /\ (eos => last)
  /\ LET r == Decode(d, staged, cap, last, SinkName, Repl)
         ev == EvOf(r, staged, cap, last)
         \* C19: before the call the caller asks latin1_byte_compatible_up_to about the bytes it is going to pass; Layer I's
         \* answer in the current state is judged by the monitor and recorded with the call (lq) for the replay comparison
         lq == DecoderLatin1(d, staged)
         lev == [ev |-> "L", bytes |-> staged, ret |-> lq]
     IN  /\ d' = r.d
         /\ m' = MonDecode(MonLatin1(m, lev), ev)
         /\ staged' = IF r.res = "P" THEN staged ELSE SubSeq(staged, r.read + 1, Len(staged))
         /\ eos' = (eos \/ last)
         /\ hist' = Append(hist, ev @@ [lq |-> lq])

Next == (\E b \in Alphabet : Stage(b)) \/ (\E cap \in Caps, last \in BOOLEAN : Invoke(cap, last))

Spec == Init /\ [][Next]_vars

\* C01/C02/C05/C06/C08/C09/C10 within the alphabet: the monitor never records a violation
NoViolation == m.viol = <<>>

\* the implementation model and the Standard agree on the encoding in use once decided
\* (the item counters w.n / wc.n grow with the stream; only their difference, lag, is state)
\* a state with a recorded violation is never identified with one without (TLC evaluates invariants on new views only)
View == <<d, [m.w EXCEPT !.n = 0], [m.wc EXCEPT !.n = 0], m.avail, m.lag, m.pend, m.eos, m.done, m.desync, staged, eos, m.viol # <<>>>>

\* export: one behaviour (shortest, BFS) per distinct reachable state, printed as the call history
Export == hist = <<>> \/ PrintT(<<"HIST", ToJson([new |-> NewEv, calls |-> hist])>>)

\* export per transition (ACTION_CONSTRAINT, evaluated on every generated step, also on those that lead to a state already
\* seen): the shortest history to the source state followed by this call - every (state, call) pair of the model is replayed
ExportStep == hist' = hist \/ PrintT(<<"HIST", ToJson([new |-> NewEv, calls |-> hist'])>>)
=============================================================================
