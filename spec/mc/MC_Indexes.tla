------------------------------ MODULE MC_Indexes ------------------------------
(* The candidate inverse tables of spec/data/inverse.json satisfy the Standard's pointer-selection rules with
   respect to the forward indexes (Indexes!InverseCorrect); a constant-level check evaluated once by TLC. *)
EXTENDS Indexes
VARIABLE x
Init == x = 0
Next == UNCHANGED x
Spec == Init /\ [][Next]_x
Inv == InverseCorrect
ASSUME InverseTablesCorrect == InverseCorrect
=============================================================================
