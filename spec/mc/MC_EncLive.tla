------------------------------ MODULE MC_EncLive ------------------------------
(***************************************************************************)
(* C08 for encoders, liveness form.  Layer I x EncoderMonitor as in MC_Enc *)
(* without the history variable and with the monitor's counters normalised *)
(* away (finite state graph without a VIEW).  Under weak fairness of "the  *)
(* caller raises `last` and calls with the documented minimum capacity"    *)
(* every behaviour reaches the end of the stream - including the           *)
(* ISO-2022-JP return to ASCII at the end and the NCR loop of the          *)
(* replacement wrapper.                                                    *)
(***************************************************************************)
EXTENDS ImplEncoder

CONSTANTS EncName, Repl, Alphabet, MaxPend, Caps
Source == EncSource

VARIABLES st, m, staged, eos
vars == <<st, m, staged, eos>>

NewEv == [ev |-> "NE", h |-> 1, enc |-> EncName, source |-> Source, sink |-> "slice", repl |-> Repl, bound |-> FALSE]

ItemUnits(items) ==
  IF Source = "utf16" THEN FlattenSeq([j \in 1..Len(items) |-> IF items[j] >= 65536 THEN Utf16Encode(items[j]) ELSE <<items[j]>>])
  ELSE ScalarsToUtf8(items)

Normalize(mm) == [mm EXCEPT !.ctr = EZeroCtr]

Init ==
  /\ st = EncInit
  /\ m = Normalize(EMonNew(EMonInit, NewEv))
  /\ staged = <<>>
  /\ eos = FALSE

Live == ~m.done /\ ~m.desync

Stage(x) ==
  /\ Live /\ ~eos /\ Len(staged) < MaxPend
  /\ staged' = Append(staged, x)
  /\ UNCHANGED <<st, m, eos>>

Invoke(cap, last) ==
  /\ Live /\ (eos => last)
  /\ LET units == ItemUnits(staged)
         S == SrcScalars(Source, units).s
         r == Encode(OutputEncoding(EncName), st, S, cap, last, Repl)
         ev == [ev |-> "E", src |-> units, cap |-> cap, last |-> last, res |-> r.res, um |-> r.um, read |-> r.read,
                written |-> r.written, out |-> r.out, had |-> r.had,
                pending |-> (OutputEncoding(EncName) = "ISO-2022-JP" /\ r.st # "ascii"),
                q |-> FALSE, alt |-> <<>>, guard |-> TRUE]
         nItems == UnitsToCount(S, r.read, 1, 0)
     IN  /\ st' = r.st
         /\ m' = Normalize(EMonEncode(m, ev))
         /\ staged' = SubSeq(staged, nItems + 1, Len(staged))
         /\ eos' = (eos \/ last)

Next == (\E x \in Alphabet : Stage(x)) \/ (\E cap \in Caps, last \in BOOLEAN : Invoke(cap, last))

MinCapacity == EncMinCap(Repl)

LiveSpec == Init /\ [][Next]_vars /\ WF_vars(Invoke(MinCapacity, TRUE))

NoViolation == m.viol = <<>>
Termination == <>(m.done \/ m.desync)
=============================================================================
