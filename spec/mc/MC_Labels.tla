------------------------------ MODULE MC_Labels ------------------------------
(***************************************************************************)
(* C13, design level: the scanner of Encoding::for_label equals the        *)
(* Standard's get-an-encoding on every byte string of length <= MaxLen     *)
(* over a class-representative alphabet, and on the strings around the     *)
(* 19-byte cut-off.                                                        *)
(***************************************************************************)
EXTENDS LabelScanner

CONSTANTS Alphabet, MaxLen

VARIABLE s

Strings == UNION {[1..n -> Alphabet] : n \in 0..MaxLen}

L19 == <<99, 115, 101, 117, 99, 112, 107, 100, 102, 109, 116, 106, 97, 112, 97, 110, 101, 115, 101>>  \* cseucpkdfmtjapanese
Cores == {L19, Append(L19, 120), SubSeq(L19, 1, 18), [i \in 1..19 |-> 120], [i \in 1..20 |-> 120],
          [i \in 1..19 |-> IF i = 3 THEN 69 ELSE L19[i]],        \* one upper-case letter
          <<117, 116, 102, 45, 56>>, <<85, 84, 70, 45, 56>>}
Pads == {<<>>, <<32>>, <<9, 32>>, <<10>>, <<12, 13>>, <<11>>, <<32, 11>>, <<0>>, <<160>>}
CutOff == {p \o c \o q : p \in Pads, c \in Cores, q \in Pads}

Init == s \in Strings \cup CutOff
Next == UNCHANGED s
Spec == Init /\ [][Next]_s

ScannerEqualsStandard == ForLabel(s) = GetEncoding(s)
=============================================================================
