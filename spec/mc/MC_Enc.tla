------------------------------- MODULE MC_Enc -------------------------------
(***************************************************************************)
(* Layer I (implementation-shaped Encoder) composed with the encoder       *)
(* contract monitor: every interleaving of Stage(item) and Invoke(cap,     *)
(* last) over a class-representative scalar alphabet.  Items are scalar    *)
(* values (for a UTF-16 source also a lone surrogate, which reads as       *)
(* U+FFFD).  Unconsumed items stay staged (the caller re-pushes them).     *)
(* InvokeQueried issues the call with the capacity of Layer I's            *)
(* max_buffer_length_* formula for the staged units (C07).                 *)
(***************************************************************************)
EXTENDS ImplEncoder, TLCExt

CONSTANTS EncName, Repl, Alphabet, MaxPend, Caps
Source == EncSource

VARIABLES st, m, staged, eos, hist
vars == <<st, m, staged, eos, hist>>

NewEv == [ev |-> "NE", h |-> 1, enc |-> EncName, source |-> Source, sink |-> "slice", repl |-> Repl, bound |-> FALSE]

\* source units of an item sequence
ItemUnits(items) ==
  IF Source = "utf16" THEN FlattenSeq([j \in 1..Len(items) |-> IF items[j] >= 65536 THEN Utf16Encode(items[j]) ELSE <<items[j]>>])
  ELSE ScalarsToUtf8(items)

Init ==
  /\ st = EncInit
  /\ m = EMonNew(EMonInit, NewEv)
  /\ staged = <<>>
  /\ eos = FALSE
  /\ hist = <<>>

Live == ~m.done /\ ~m.desync

Stage(x) ==
  /\ Live /\ ~eos /\ Len(staged) < MaxPend
  /\ staged' = Append(staged, x)
  /\ UNCHANGED <<st, m, eos, hist>>

Invoke(cap, last, q) ==
  /\ Live /\ (eos => last)
  /\ LET units == ItemUnits(staged)
         S == SrcScalars(Source, units).s
         r == Encode(OutputEncoding(EncName), st, S, cap, last, Repl)
         ev == [ev |-> "E", src |-> units, cap |-> cap, last |-> last, res |-> r.res, um |-> r.um, read |-> r.read,
                written |-> r.written, out |-> r.out, had |-> r.had,
                pending |-> (OutputEncoding(EncName) = "ISO-2022-JP" /\ r.st # "ascii"),
                q |-> q, alt |-> <<>>, guard |-> TRUE]
         nItems == UnitsToCount(S, r.read, 1, 0)
     IN  /\ st' = r.st
         /\ m' = EMonEncode(m, ev)
         /\ staged' = SubSeq(staged, nItems + 1, Len(staged))
         /\ eos' = (eos \/ last)
         /\ hist' = Append(hist, ev)

\* C07: the capacity the model's max_buffer_length_* formula gives for the staged units in the current state
InvokeQueried(last) == Invoke(EncoderMax(OutputEncoding(EncName), Len(ItemUnits(staged)), Repl), last, TRUE)

Next == \/ \E x \in Alphabet : Stage(x)
        \/ \E cap \in Caps, last \in BOOLEAN : Invoke(cap, last, FALSE)
        \/ \E last \in BOOLEAN : InvokeQueried(last)

Spec == Init /\ [][Next]_vars

NoViolation == m.viol = <<>>

\* a state with a recorded violation is never identified with one without (TLC evaluates invariants on new views only).
\* The state after a queried call usually coincides with the state after a large fixed capacity: queried behaviours are
\* exported per transition (ExportStep), not per state.
View == <<st, m.se, m.avail, m.pend, m.eos, m.done, m.desync, m.ist, m.rd, m.hadU, staged, eos, m.viol # <<>>>>

Export == hist = <<>> \/ PrintT(<<"HIST", ToJson([new |-> NewEv, calls |-> hist])>>)

\* export per transition (ACTION_CONSTRAINT, evaluated on every generated step, also on those that lead to a state already
\* seen): the shortest history to the source state followed by this call - every (state, call) pair of the model is replayed
ExportStep == hist' = hist \/ PrintT(<<"HIST", ToJson([new |-> NewEv, calls |-> hist'])>>)
=============================================================================
