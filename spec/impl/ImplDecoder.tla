---------------------------- MODULE ImplDecoder ----------------------------
(***************************************************************************)
(* Layer I: implementation-shaped model of encoding_rs::Decoder.           *)
(*                                                                         *)
(* One operator per Rust function / macro arm, same case order, same       *)
(* space-check thresholds, deliberate oddities modelled as they are.       *)
(* WHAT a byte sequence decodes to is taken from Layer S (the code's       *)
(* tables are not modelled); HOW the call proceeds - where it stops, what  *)
(* it un-reads, which state survives the call, what it reports - is        *)
(* transcribed from the code:                                              *)
(*   public_decode_function!            macros.rs   (life cycle, BOM)      *)
(*   decode_to_utf8 / decode_to_utf16   lib.rs      (replacement wrapper)  *)
(*   ascii_compatible_two_byte_decoder_function!    (Big5, EUC-KR, SJIS)   *)
(*   SingleByteDecoder::decode_to_utf8_raw / _utf16_raw                    *)
(*   UserDefinedDecoder, ReplacementDecoder, Iso2022JpDecoder, Utf8Decoder *)
(*   Handles: check_space_bmp/astral, copy_ascii_from_check_space_*        *)
(* All variants are transcribed; the generic shape remains for reference:  *)
(* generic decoder_function! shape driven by Layer S ("abstract variant"): *)
(* contract-conformant, but not expected to predict the real code's exact  *)
(* stopping points.                                                        *)
(***************************************************************************)
EXTENDS DecoderMonitor

U8(sink) == sink # "utf16"
UnitsOf(sink, cp) == IF U8(sink) THEN Utf8Len(cp) ELSE Utf16Len(cp)
RECURSIVE SumUnits(_, _)
SumUnits(sink, cps) == IF cps = <<>> THEN 0 ELSE UnitsOf(sink, Head(cps)) + SumUnits(sink, Tail(cps))

\* call context: ByteSource {slice, pos} and *Destination {slice.len() = cap, pos = w}; out = scalars written
NewCtx(src, cap, last, sink) == [src |-> src, pos |-> 0, cap |-> cap, w |-> 0, out |-> <<>>, last |-> last, sink |-> sink]
SpaceBmp(c) == IF U8(c.sink) THEN c.w + 2 < c.cap ELSE c.w < c.cap
SpaceAstral(c) == IF U8(c.sink) THEN c.w + 3 < c.cap ELSE c.w + 1 < c.cap
SpaceOK(kind, c) == IF kind = "astral" THEN SpaceAstral(c) ELSE SpaceBmp(c)
Wr(c, cps) == [c EXCEPT !.w = @ + SumUnits(c.sink, cps), !.out = @ \o cps]
Adv(c, n) == [c EXCEPT !.pos = @ + n]
SrcEmpty(c) == c.pos >= Len(c.src)
Peek(c) == c.src[c.pos + 1]

\* variant decoder state (uniform): lead = pending lead byte (0 = none); st = Layer S handler state (used by the
\* stateful variants); pp = ISO-2022-JP pending_prepended; emitted = ReplacementDecoder.emitted
V0 == [lead |-> 0, st |-> Blank, pp |-> FALSE, emitted |-> FALSE]
InitVariant(enc) == [V0 EXCEPT !.st = InitDec(enc)]

Ret(v, res, ml, ma, c) == [v |-> v, res |-> res, ml |-> ml, ma |-> ma, read |-> c.pos, written |-> c.w, out |-> c.out]

\* number of leading ASCII bytes among the n bytes of src after position from
AsciiCount(src, from, n) ==
  LET idx == {j \in 1..n : src[from + j] >= 128}
  IN  IF idx = {} THEN n ELSE (CHOOSE j \in idx : \A q \in idx : j <= q) - 1

\* copy the first n bytes after pos (all ASCII) to the destination
CopyAscii(c, n) == [c EXCEPT !.pos = @ + n, !.w = @ + n, !.out = @ \o SubSeq(c.src, c.pos + 1, c.pos + n)]

(***************************************************************************)
(* ascii_compatible_two_byte_decoder_function! and the single-byte UTF-8   *)
(* path, which has the same shape.                                         *)
(*   chk    destination check used ("astral" for Big5, "bmp" otherwise)    *)
(*   punct  $ascii_punctuation (EUC-KR, single-byte)                       *)
(*   single what happens after a one-byte non-ASCII character: "outer" =   *)
(*          continue 'outermost (Shift_JIS lead block), "after" = fall     *)
(*          through to the after-character checks (single-byte)            *)
(***************************************************************************)
TBChk(enc) == IF enc = "Big5" THEN "astral" ELSE "bmp"
TBPunct(enc) == enc = "EUC-KR" \/ Family(enc) = "sb"
TBSingle(enc) == IF Family(enc) = "sb" THEN "after" ELSE "outer"

\* $trail: c.pos is at the trail byte.  Returns [done, ret] (Malformed) or [done = FALSE, c] (character written).
TBTrail(enc, lead, c) ==
  LET byte == Peek(c)
      c1 == Adv(c, 1)
      r == Handler(enc, [Blank EXCEPT !.a = lead], byte)
  IN  IF r.err THEN
        IF r.restore # <<>> THEN [done |-> TRUE, ret |-> Ret(V0, "M", 1, 0, c), c |-> c]     \* unread()
        ELSE [done |-> TRUE, ret |-> Ret(V0, "M", 2, 0, c1), c |-> c1]
      ELSE [done |-> FALSE, ret |-> Ret(V0, "I", 0, 0, c1), c |-> Wr(c1, r.emit)]

RECURSIVE TBOuter(_, _), TBMiddle(_, _, _), TBAfter(_, _), TBInner(_, _, _)
\* 'outermost: dest.copy_ascii_from_check_space_{bmp,astral}(&mut source)
TBOuter(enc, c) ==
  LET srcRem == Len(c.src) - c.pos
      dstRem == c.cap - c.w
      length == IF dstRem < srcRem THEN dstRem ELSE srcRem
      pending == IF dstRem < srcRem THEN "O" ELSE "I"
      n == AsciiCount(c.src, c.pos, length)
      c1 == CopyAscii(c, n)
      \* Utf16Destination::copy_ascii_from_check_space_bmp hands out the handle without a further check
      ok == IF ~U8(c.sink) /\ TBChk(enc) = "bmp" THEN TRUE ELSE SpaceOK(TBChk(enc), c1)
  IN  IF n = length THEN Ret(V0, pending, 0, 0, c1)
      ELSE IF ~ok THEN Ret(V0, "O", 0, 0, c1)
      ELSE TBMiddle(enc, Adv(c1, 1), Peek(c1))

\* 'middle: non_ascii has been consumed and space for one character is guaranteed
TBMiddle(enc, c, na) ==
  LET r == Handler(enc, Blank, na) IN
  IF r.err THEN Ret(V0, "M", 1, 0, c)
  ELSE IF r.emit # <<>> THEN
    (IF TBSingle(enc) = "outer" THEN TBOuter(enc, Wr(c, r.emit)) ELSE TBAfter(enc, Wr(c, r.emit)))
  ELSE IF SrcEmpty(c) THEN
    (IF c.last THEN Ret(V0, "M", 1, 0, c) ELSE Ret([V0 EXCEPT !.lead = na], "I", 0, 0, c))
  ELSE LET t == TBTrail(enc, na, c) IN IF t.done THEN t.ret ELSE TBAfter(enc, t.c)

\* after a character: source check, destination check, read the next byte
TBAfter(enc, c) ==
  IF SrcEmpty(c) THEN Ret(V0, "I", 0, 0, c)
  ELSE IF ~SpaceOK(TBChk(enc), c) THEN Ret(V0, "O", 0, 0, c)
  ELSE TBInner(enc, Adv(c, 1), Peek(c))

\* 'innermost: b has been consumed, space for one character is guaranteed
TBInner(enc, c, b) ==
  IF b > 127 THEN TBMiddle(enc, c, b)
  ELSE LET c1 == Wr(c, <<b>>) IN
    IF TBPunct(enc) /\ b < 60 THEN
      (IF SrcEmpty(c1) THEN Ret(V0, "I", 0, 0, c1)
       ELSE IF ~SpaceOK(TBChk(enc), c1) THEN Ret(V0, "O", 0, 0, c1)
       ELSE TBInner(enc, Adv(c1, 1), Peek(c1)))
    ELSE TBOuter(enc, c1)

TBRaw(enc, v, c) ==
  IF v.lead # 0 THEN
    IF SrcEmpty(c) THEN (IF c.last THEN Ret(V0, "M", 1, 0, c) ELSE Ret(v, "I", 0, 0, c))
    ELSE IF ~SpaceOK(TBChk(enc), c) THEN Ret(v, "O", 0, 0, c)
    ELSE LET t == TBTrail(enc, v.lead, c) IN IF t.done THEN t.ret ELSE TBOuter(enc, t.c)
  ELSE TBOuter(enc, c)

(***************************************************************************)
(* SingleByteDecoder::decode_to_utf16_raw and                              *)
(* UserDefinedDecoder::decode_to_utf16_raw: one unit per byte, bounded by  *)
(* min(src, dst), no worst-case check.                                     *)
(***************************************************************************)
OneToOne16(enc, c) ==
  LET srcRem == Len(c.src)
      length == IF c.cap < srcRem THEN c.cap ELSE srcRem
      pending == IF c.cap < srcRem THEN "O" ELSE "I"
      Map(b) == LET r == Handler(enc, Blank, b) IN IF r.err THEN 0 ELSE r.emit[1]
      bad == {j \in 1..length : c.src[j] >= 128 /\ Map(c.src[j]) = 0}
      n == IF bad = {} THEN length ELSE (CHOOSE j \in bad : \A q \in bad : j <= q) - 1
      cps == [j \in 1..n |-> IF c.src[j] < 128 THEN c.src[j] ELSE Map(c.src[j])]
      c1 == [c EXCEPT !.pos = n, !.w = n, !.out = cps]
  IN  IF bad = {} THEN Ret(V0, pending, 0, 0, c1)
      ELSE Ret(V0, "M", 1, 0, Adv(c1, 1))

(***************************************************************************)
(* decoder_function! (x-user-defined to UTF-8; also the shape used for the *)
(* abstract variants): per byte - source check, destination check, read,   *)
(* body.  DFGeneric drives the body from Layer S.                          *)
(***************************************************************************)
RECURSIVE DFGeneric(_, _, _, _)
DFGeneric(enc, chk, v, c) ==
  IF SrcEmpty(c) THEN
    IF c.last THEN
      \* eof: flush the Standard decoder; an error needs room for the replacement character
      LET e == StepTok(enc, [d |-> v.st, sl |-> 0, fin |-> FALSE], EOQ, 0) IN
      IF e.items # <<>> /\ e.items[1].k = "e" THEN
        (IF ~SpaceBmp(c) THEN Ret(v, "O", 0, 0, c)
         ELSE Ret([v EXCEPT !.st = e.ss.d, !.lead = 0], "M", IF v.lead = 0 THEN 1 ELSE v.lead, 0, c))
      ELSE Ret(v, "I", 0, 0, c)
    ELSE Ret(v, "I", 0, 0, c)
  ELSE IF ~SpaceOK(chk, c) THEN Ret(v, "O", 0, 0, c)
  ELSE
    LET b == Peek(c)
        r == Handler(enc, v.st, b)
        seq == v.lead + 1              \* bytes of the current sequence including b
        c1 == Adv(c, 1)
    IN  IF r.err THEN
          \* the restored suffix is un-read when it is only the current byte; longer restores are outside this shape
          (IF r.restore = <<b>> THEN Ret([v EXCEPT !.st = r.st, !.lead = 0], "M", seq - 1, 0, c)
           ELSE Ret([v EXCEPT !.st = r.st, !.lead = 0], "M", seq - Len(r.restore), Len(r.restore), c1))
        ELSE IF r.emit # <<>> THEN DFGeneric(enc, chk, [v EXCEPT !.st = r.st, !.lead = 0], Wr(c1, r.emit))
        ELSE DFGeneric(enc, chk, [v EXCEPT !.st = r.st, !.lead = seq], c1)

UserDefinedRaw8(c) == DFGeneric("x-user-defined", "bmp", V0, c)

(***************************************************************************)
(* ReplacementDecoder                                                      *)
(***************************************************************************)
ReplacementRaw(v, c) ==
  IF v.emitted \/ c.src = <<>> THEN Ret(v, "I", 0, 0, Adv(c, Len(c.src)))
  ELSE IF (IF U8(c.sink) THEN c.cap < 3 ELSE c.cap = 0) THEN Ret(v, "O", 0, 0, c)
  ELSE Ret([v EXCEPT !.emitted = TRUE], "M", 1, 0, Adv(c, 1))

(***************************************************************************)
(* Iso2022JpDecoder: decoder_functions! with preamble (pending_prepended), *)
(* eof block and body.  The state record of Layer S (s, t, a, o) is the    *)
(* implementation's (decoder_state, output_state, lead, output_flag).      *)
(***************************************************************************)
RECURSIVE IsoLoop(_, _)
IsoLoop(v, c) ==
  IF SrcEmpty(c) THEN
    IF c.last /\ v.st.s \in {"trail", "escstart", "esc"} THEN
      \* eof block (with the space check added by fix 5f7c866)
      IF ~SpaceBmp(c) THEN Ret(v, "O", 0, 0, c)
      ELSE IF v.st.s = "esc" THEN Ret([v EXCEPT !.pp = TRUE, !.st.s = v.st.t], "M", 1, 1, c)
      ELSE Ret([v EXCEPT !.st.s = v.st.t], "M", 1, 0, c)
    ELSE Ret(v, "I", 0, 0, c)
  ELSE IF ~SpaceBmp(c) THEN Ret(v, "O", 0, 0, c)
  ELSE
    LET b == Peek(c)
        c1 == Adv(c, 1)
        r == IsoH(v.st, b)
    IN  IF r.sp = "esc" THEN IsoLoop([v EXCEPT !.st = r.st], c1)
        ELSE IF r.sp = "dblesc" THEN Ret([v EXCEPT !.st = r.st], "M", 3, 3, c1)
        ELSE IF r.sp = "escerr" THEN Ret([v EXCEPT !.st = r.st], "M", 1, 1, c1)
        ELSE IF r.err THEN
          (IF v.st.s = "esc" THEN
             \* bad byte after ESC $ / ESC ( : lead kept for the preamble, current byte un-read
             Ret([v EXCEPT !.pp = TRUE, !.st = [r.st EXCEPT !.a = v.st.a]], "M", 1, 1, c)
           ELSE IF v.st.s = "escstart" THEN Ret([v EXCEPT !.st = r.st], "M", 1, 0, c)
           ELSE IF v.st.s = "trail" THEN Ret([v EXCEPT !.st = r.st], "M", 2, 0, c1)
           ELSE Ret([v EXCEPT !.st = r.st], "M", 1, 0, c1))
        ELSE IsoLoop([v EXCEPT !.st = r.st], Wr(c1, r.emit))

IsoRaw(v, c) ==
  IF v.pp THEN
    IF ~SpaceBmp(c) THEN Ret(v, "O", 0, 0, c)
    ELSE LET r == IsoH(v.st, v.st.a)      \* the prepended byte ($ or () goes through the current output state
         IN  IsoLoop([v EXCEPT !.pp = FALSE, !.st = IF r.st.s = "trail" THEN r.st ELSE [r.st EXCEPT !.a = 0]], Wr(c, r.emit))
  ELSE IsoLoop(v, c)

(***************************************************************************)
(* Utf8Decoder: decoder_functions! with loop_preamble = the validating     *)
(* fast path (copy_utf8_up_to_invalid_from) whenever no sequence is in     *)
(* progress, destination_check = check_space_astral, eof = Malformed for a *)
(* pending sequence (no space check: the byte read last had four free      *)
(* bytes and wrote nothing).  The body is the Standard's UTF-8 state       *)
(* machine; v.st is its state (b = bytes_seen, c = bytes_needed).          *)
(***************************************************************************)
RECURSIVE TakeChars16(_, _, _, _)
\* greedy: scalars (with their UTF-8 lengths) converted to UTF-16 while the units fit; returns [n, bytes, units]
TakeChars16(cps, j, room, acc) ==
  IF j > Len(cps) THEN acc
  ELSE LET u == Utf16Len(cps[j]) IN
    IF acc.units + u > room THEN acc
    ELSE TakeChars16(cps, j + 1, room, [n |-> acc.n + 1, bytes |-> acc.bytes + Utf8Len(cps[j]), units |-> acc.units + u])

Utf8FastCopy(c) ==
  LET srcRem == Len(c.src) - c.pos
      dstRem == c.cap - c.w
  IN
  IF U8(c.sink) THEN
    \* Utf8Destination: validate the first min(src, dst) bytes, memcpy the valid prefix
    LET minLen == IF srcRem < dstRem THEN srcRem ELSE dstRem
        validLen == Utf8ValidUpTo(SubSeq(c.src, c.pos + 1, c.pos + minLen))
        cps == Utf8ToScalars(SubSeq(c.src, c.pos + 1, c.pos + validLen)).cps
    IN  [c EXCEPT !.pos = @ + validLen, !.w = @ + validLen, !.out = @ \o cps]
  ELSE
    \* Utf16Destination: convert_utf8_to_utf16_up_to_invalid - whole valid characters while they fit
    LET validLen == Utf8ValidUpTo(SubSeq(c.src, c.pos + 1, Len(c.src)))
        cps == Utf8ToScalars(SubSeq(c.src, c.pos + 1, c.pos + validLen)).cps
        t == TakeChars16(cps, 1, dstRem, [n |-> 0, bytes |-> 0, units |-> 0])
    IN  [c EXCEPT !.pos = @ + t.bytes, !.w = @ + t.units, !.out = @ \o SubSeq(cps, 1, t.n)]

RECURSIVE Utf8Loop(_, _)
Utf8Loop(v, c0) ==
  LET c == IF v.st.c = 0 THEN Utf8FastCopy(c0) ELSE c0 IN
  IF SrcEmpty(c) THEN
    IF c.last /\ v.st.c # 0 THEN Ret([v EXCEPT !.st = Utf8Init], "M", v.st.b + 1, 0, c)
    ELSE Ret(v, "I", 0, 0, c)
  ELSE IF ~SpaceAstral(c) THEN Ret(v, "O", 0, 0, c)
  ELSE
    LET b == Peek(c)
        c1 == Adv(c, 1)
        r == Utf8H(v.st, b)
    IN  IF r.err THEN
          (IF r.restore # <<>> THEN Ret([v EXCEPT !.st = r.st], "M", v.st.b + 1, 0, c)      \* unread()
           ELSE Ret([v EXCEPT !.st = r.st], "M", 1, 0, c1))
        ELSE Utf8Loop([v EXCEPT !.st = r.st], Wr(c1, r.emit))

(***************************************************************************)
(* Utf16Decoder: decoder_functions! with preamble (pending_bmp),           *)
(* loop_preamble = the bulk path copy_utf16_from when no byte / surrogate  *)
(* is pending, eof block with its own space check, destination_check =     *)
(* check_space_astral.  v.st.a = lead_byte + 1 (0 = none), v.st.b =        *)
(* lead_surrogate, v.pp = pending_bmp (as in Layer S's Utf16H).            *)
(***************************************************************************)
UnitAt(be, src, pos, k) ==      \* k-th code unit (0-based) of the bytes after position pos
  LET x == src[pos + 2 * k + 1]
      y == src[pos + 2 * k + 2]
  IN  IF be THEN x * 256 + y ELSE y * 256 + x

\* Utf16Destination::copy_utf16_from: returns [c, err]
RECURSIVE Copy16To16(_, _, _, _, _)
Copy16To16(be, c, n, offset, acc) ==      \* acc = scalars copied so far (units copied = offset)
  LET sur == {j \in offset..(n - 1) : IsSurrogate(UnitAt(be, c.src, c.pos, j))} IN
  IF sur = {} THEN
    [c |-> [c EXCEPT !.pos = @ + 2 * n, !.w = @ + n,
                     !.out = @ \o acc \o [k \in 1..(n - offset) |-> UnitAt(be, c.src, c.pos, offset + k - 1)]],
     err |-> FALSE]
  ELSE
    LET j == CHOOSE j \in sur : \A q \in sur : j <= q
        bmp == [k \in 1..(j - offset) |-> UnitAt(be, c.src, c.pos, offset + k - 1)]
        u == UnitAt(be, c.src, c.pos, j)
        secondPos == j + 1
        bad == [c |-> [c EXCEPT !.pos = @ + 2 * secondPos, !.w = @ + j, !.out = @ \o acc \o bmp], err |-> TRUE]
    IN  IF u > 56319 \/ secondPos = n THEN bad
        ELSE LET second == UnitAt(be, c.src, c.pos, secondPos) IN
          IF ~IsLow(second) THEN bad
          ELSE Copy16To16(be, c, n, j + 2, acc \o bmp \o <<65536 + (u - 55296) * 1024 + (second - 56320)>>)

\* convert_unaligned_utf16_to_utf8 (Utf8Destination::copy_utf16_from): i = next unit index, dp = bytes written
RECURSIVE Conv16To8Outer(_, _, _, _, _, _), Conv16To8Inner(_, _, _, _, _, _, _)
Conv16To8Outer(be, c, n, i, dp, acc) ==
  LET room == (c.cap - c.w) - dp
      left == n - i
      length == IF room < left THEN room ELSE left
      nonAscii == {j \in i..(i + length - 1) : UnitAt(be, c.src, c.pos, j) >= 128}
      run == IF nonAscii = {} THEN length ELSE (CHOOSE j \in nonAscii : \A q \in nonAscii : j <= q) - i
      ascii == [k \in 1..run |-> UnitAt(be, c.src, c.pos, i + k - 1)]
      i1 == i + run
      dp1 == dp + run
  IN  IF nonAscii = {} THEN [i |-> i1, dp |-> dp1, out |-> acc \o ascii, err |-> FALSE]
      ELSE IF dp1 >= (c.cap - c.w) - 3 THEN [i |-> i1, dp |-> dp1, out |-> acc \o ascii, err |-> FALSE]
      ELSE Conv16To8Inner(be, c, n, i1 + 1, dp1, acc \o ascii, UnitAt(be, c.src, c.pos, i1))

Conv16To8Inner(be, c, n, i, dp, acc, u) ==      \* u has been read (i already past it)
  LET bad == [i |-> i, dp |-> dp, out |-> acc, err |-> TRUE] IN
  IF ~IsSurrogate(u) THEN
    LET dp1 == dp + Utf8Len(u)
        acc1 == Append(acc, u)
    IN  IF dp1 >= (c.cap - c.w) - 3 \/ i = n THEN [i |-> i, dp |-> dp1, out |-> acc1, err |-> FALSE]
        ELSE LET nx == UnitAt(be, c.src, c.pos, i) IN
          IF nx > 127 THEN Conv16To8Inner(be, c, n, i + 1, dp1, acc1, nx)
          ELSE Conv16To8Outer(be, c, n, i + 1, dp1 + 1, Append(acc1, nx))
  ELSE IF IsHigh(u) THEN
    (IF i < n /\ IsLow(UnitAt(be, c.src, c.pos, i)) THEN
       LET cp == 65536 + (u - 55296) * 1024 + (UnitAt(be, c.src, c.pos, i) - 56320)
           dp1 == dp + 4
           acc1 == Append(acc, cp)
           i1 == i + 1
       IN  IF dp1 >= (c.cap - c.w) - 3 \/ i1 = n THEN [i |-> i1, dp |-> dp1, out |-> acc1, err |-> FALSE]
           ELSE LET nx == UnitAt(be, c.src, c.pos, i1) IN
             IF nx > 127 THEN Conv16To8Inner(be, c, n, i1 + 1, dp1, acc1, nx)
             ELSE Conv16To8Outer(be, c, n, i1 + 1, dp1 + 1, Append(acc1, nx))
     ELSE bad)
  ELSE bad

Utf16BulkCopy(be, c) ==
  LET srcUnits == (Len(c.src) - c.pos) \div 2
      dstRem == c.cap - c.w
  IN
  IF ~U8(c.sink) THEN
    LET n0 == IF srcUnits < dstRem THEN srcUnits ELSE dstRem
        n == IF n0 > 0 /\ IsHigh(UnitAt(be, c.src, c.pos, n0 - 1)) THEN n0 - 1 ELSE n0
    IN  IF n0 = 0 THEN [c |-> c, err |-> FALSE] ELSE Copy16To16(be, c, n, 0, <<>>)
  ELSE
    LET n == IF srcUnits > 0 /\ IsHigh(UnitAt(be, c.src, c.pos, srcUnits - 1)) THEN srcUnits - 1 ELSE srcUnits
    IN  IF srcUnits = 0 \/ dstRem < 4 THEN [c |-> c, err |-> FALSE]
        ELSE LET r == Conv16To8Outer(be, c, n, 0, 0, <<>>)
             IN  [c |-> [c EXCEPT !.pos = @ + 2 * r.i, !.w = @ + r.dp, !.out = @ \o r.out], err |-> r.err]

RECURSIVE Utf16Loop(_, _, _)
Utf16Loop(be, v, c0) ==
  LET bulk == IF v.st.a = 0 /\ v.st.b = 0 THEN Utf16BulkCopy(be, c0) ELSE [c |-> c0, err |-> FALSE]
      c == bulk.c
  IN
  IF bulk.err THEN Ret(v, "M", 2, 0, c)
  ELSE IF SrcEmpty(c) THEN
    IF c.last /\ (v.st.b # 0 \/ v.st.a # 0) THEN
      \* eof block: "return (DecoderResult::OutputFull, 0, 0)" is transcribed literally
      (IF ~SpaceBmp(c) THEN [v |-> v, res |-> "O", ml |-> 0, ma |-> 0, read |-> 0, written |-> 0, out |-> <<>>]
       ELSE IF v.st.b # 0 THEN Ret([v EXCEPT !.st = Blank], "M", IF v.st.a = 0 THEN 2 ELSE 3, 0, c)
       ELSE Ret([v EXCEPT !.st = Blank], "M", 1, 0, c))
    ELSE Ret(v, "I", 0, 0, c)
  ELSE IF ~SpaceAstral(c) THEN Ret(v, "O", 0, 0, c)
  ELSE
    LET b == Peek(c)
        c1 == Adv(c, 1)
    IN  IF v.st.a = 0 THEN Utf16Loop(be, [v EXCEPT !.st.a = b + 1], c1)
        ELSE
          LET lead == v.st.a - 1
              unit == IF be THEN lead * 256 + b ELSE b * 256 + lead
              v1 == [v EXCEPT !.st.a = 0]
          IN  IF IsHigh(unit) THEN
                (IF v.st.b # 0 THEN Ret([v1 EXCEPT !.st.b = unit], "M", 2, 2, c1)
                 ELSE Utf16Loop(be, [v1 EXCEPT !.st.b = unit], c1))
              ELSE IF IsLow(unit) THEN
                (IF v.st.b = 0 THEN Ret(v1, "M", 2, 0, c1)
                 ELSE Utf16Loop(be, [v1 EXCEPT !.st.b = 0], Wr(c1, <<65536 + (v.st.b - 55296) * 1024 + (unit - 56320)>>)))
              ELSE IF v.st.b # 0 THEN Ret([v1 EXCEPT !.st.b = unit, !.pp = TRUE], "M", 2, 2, c1)
              ELSE Utf16Loop(be, v1, Wr(c1, <<unit>>))

Utf16Raw(be, v, c) ==
  IF v.pp THEN
    IF ~SpaceBmp(c) THEN Ret(v, "O", 0, 0, c)
    ELSE Utf16Loop(be, [v EXCEPT !.pp = FALSE, !.st.b = 0], Wr(c, <<v.st.b>>))
  ELSE Utf16Loop(be, v, c)

(***************************************************************************)
(* gb18030_decoder_function! (gb18030 and GBK decoders).                   *)
(* v.st.a / b / c = the bytes of Gb18030Pending::One / Two / Three (0 =     *)
(* none), v.lead = pending_ascii (the digit to be output first, 0 = none). *)
(* The second / third / fourth bodies take their verdict from Layer S:     *)
(*   second not a digit: bad trail -> Malformed(1,0) un-read if ASCII,     *)
(*     else Malformed(2,0); otherwise a character;                         *)
(*   third invalid: pending_ascii = second, Malformed(1,1), third un-read; *)
(*   fourth not a digit: pending_ascii = second, pending = One(third),     *)
(*     Malformed(1,2), fourth un-read; digit: character or Malformed(4,0). *)
(***************************************************************************)
GbSt(a, b, c) == [Blank EXCEPT !.a = a, !.b = b, !.c = c]
GbV(a, b, c, pa) == [V0 EXCEPT !.st = GbSt(a, b, c), !.lead = pa]
IsDigitByte(x) == x >= 48 /\ x <= 57

\* outcome of the byte after `first` (not a digit): [done, ret, c]
GbSecond(first, c) ==
  LET second == Peek(c)
      c1 == Adv(c, 1)
      r == GbH(GbSt(first, 0, 0), second)
  IN  IF r.err THEN
        (IF r.restore # <<>> THEN [done |-> TRUE, ret |-> Ret(V0, "M", 1, 0, c), c |-> c]
         ELSE [done |-> TRUE, ret |-> Ret(V0, "M", 2, 0, c1), c |-> c1])
      ELSE [done |-> FALSE, ret |-> Ret(V0, "I", 0, 0, c1), c |-> Wr(c1, r.emit)]

\* fourth byte: c.pos at the fourth byte
GbFourth(first, second, third, c) ==
  LET fourth == Peek(c)
      c1 == Adv(c, 1)
      r == GbH(GbSt(first, second, third), fourth)
  IN  IF ~IsDigitByte(fourth) THEN [done |-> TRUE, ret |-> Ret(GbV(third, 0, 0, second), "M", 1, 2, c), c |-> c]
      ELSE IF r.err THEN [done |-> TRUE, ret |-> Ret(V0, "M", 4, 0, c1), c |-> c1]
      ELSE [done |-> FALSE, ret |-> Ret(V0, "I", 0, 0, c1), c |-> Wr(c1, r.emit)]

ThirdOK(third) == third >= 129 /\ third <= 254

RECURSIVE GbOuter(_), GbMiddle(_, _), GbAfter(_)
GbOuter(c) ==
  LET srcRem == Len(c.src) - c.pos
      dstRem == c.cap - c.w
      length == IF dstRem < srcRem THEN dstRem ELSE srcRem
      pending == IF dstRem < srcRem THEN "O" ELSE "I"
      n == AsciiCount(c.src, c.pos, length)
      c1 == CopyAscii(c, n)
  IN  IF n = length THEN Ret(V0, pending, 0, 0, c1)
      ELSE IF ~SpaceAstral(c1) THEN Ret(V0, "O", 0, 0, c1)
      ELSE GbMiddle(Adv(c1, 1), Peek(c1))

GbMiddle(c, na) ==
  IF na = 255 THEN Ret(V0, "M", 1, 0, c)
  ELSE IF na = 128 THEN GbOuter(Wr(c, <<8364>>))
  ELSE IF SrcEmpty(c) THEN (IF c.last THEN Ret(V0, "M", 1, 0, c) ELSE Ret(GbV(na, 0, 0, 0), "I", 0, 0, c))
  ELSE LET second == Peek(c) IN
    IF ~IsDigitByte(second) THEN (LET t == GbSecond(na, c) IN IF t.done THEN t.ret ELSE GbAfter(t.c))
    ELSE LET c2 == Adv(c, 1) IN
      IF SrcEmpty(c2) THEN (IF c2.last THEN Ret(V0, "M", 2, 0, c2) ELSE Ret(GbV(na, second, 0, 0), "I", 0, 0, c2))
      ELSE LET third == Peek(c2) IN
        IF ~ThirdOK(third) THEN Ret(GbV(0, 0, 0, second), "M", 1, 1, c2)
        ELSE LET c3 == Adv(c2, 1) IN
          IF SrcEmpty(c3) THEN (IF c3.last THEN Ret(V0, "M", 3, 0, c3) ELSE Ret(GbV(na, second, third, 0), "I", 0, 0, c3))
          ELSE LET t == GbFourth(na, second, third, c3) IN IF t.done THEN t.ret ELSE GbAfter(t.c)

GbAfter(c) ==
  IF SrcEmpty(c) THEN Ret(V0, "I", 0, 0, c)
  ELSE IF ~SpaceAstral(c) THEN Ret(V0, "O", 0, 0, c)
  ELSE LET b == Peek(c)
           c1 == Adv(c, 1)
       IN  IF b > 127 THEN GbMiddle(c1, b) ELSE GbOuter(Wr(c1, <<b>>))

\* the "while !pending.is_none()" loop that resumes a sequence begun in an earlier call
RECURSIVE GbResume(_, _)
GbResume(v, c) ==
  IF v.st.a = 0 THEN GbOuter(c)
  ELSE IF SrcEmpty(c) THEN
    (IF c.last THEN Ret(V0, "M", IF v.st.c # 0 THEN 3 ELSE IF v.st.b # 0 THEN 2 ELSE 1, 0, c) ELSE Ret(v, "I", 0, 0, c))
  ELSE IF ~SpaceAstral(c) THEN Ret(v, "O", 0, 0, c)
  ELSE LET byte == Peek(c) IN
    IF v.st.c # 0 THEN
      (LET t == GbFourth(v.st.a, v.st.b, v.st.c, c) IN
       IF t.done THEN t.ret ELSE GbOuter(t.c))
    ELSE IF v.st.b # 0 THEN
      (IF ~ThirdOK(byte) THEN Ret(GbV(0, 0, 0, v.st.b), "M", 1, 1, c)
       ELSE GbResume(GbV(v.st.a, v.st.b, byte, 0), Adv(c, 1)))
    ELSE
      (IF ~IsDigitByte(byte) THEN (LET t == GbSecond(v.st.a, c) IN IF t.done THEN t.ret ELSE GbOuter(t.c))
       ELSE GbResume(GbV(v.st.a, byte, 0, 0), Adv(c, 1)))

GbRaw(v, c) ==
  IF v.lead # 0 THEN
    \* pending_ascii prologue: "return (DecoderResult::OutputFull, 0, 0)"
    IF ~SpaceBmp(c) THEN Ret(v, "O", 0, 0, c)
    ELSE GbResume([v EXCEPT !.lead = 0], Wr(c, <<v.lead>>))
  ELSE GbResume(v, c)

(***************************************************************************)
(* euc_jp_decoder_function!.  v.st is Layer S's EUC-JP state: a = 0x8E     *)
(* (HalfWidthKatakana), 0x8F (Jis0212Shift), a lead byte with o = FALSE    *)
(* (Jis0208Lead) or with o = TRUE (Jis0212Lead); check_space_bmp.          *)
(* A bad byte after k bytes of a sequence is Malformed(k, 0) and un-read   *)
(* if ASCII, Malformed(k + 1, 0) otherwise.                                *)
(***************************************************************************)
EjV(st) == [V0 EXCEPT !.st = st]
EjCount(st) == IF st.o THEN 2 ELSE 1

\* the byte at c.pos continues the sequence in state st: [kind, ret, c, st]
\*   kind "ret" = Malformed returned, "char" = character written, "more" = 0x8F accepted a JIS X 0212 lead
EjByte(st, c) ==
  LET byte == Peek(c)
      c1 == Adv(c, 1)
      r == EucJpH(st, byte)
      k == EjCount(st)
  IN  IF r.err THEN
        (IF r.restore # <<>> THEN [kind |-> "ret", ret |-> Ret(V0, "M", k, 0, c), c |-> c, st |-> Blank]
         ELSE [kind |-> "ret", ret |-> Ret(V0, "M", k + 1, 0, c1), c |-> c1, st |-> Blank])
      ELSE IF r.emit # <<>> THEN [kind |-> "char", ret |-> Ret(V0, "I", 0, 0, c1), c |-> Wr(c1, r.emit), st |-> Blank]
      ELSE [kind |-> "more", ret |-> Ret(V0, "I", 0, 0, c1), c |-> c1, st |-> r.st]

RECURSIVE EjOuter(_), EjMiddle(_, _), EjSeq(_, _), EjAfter(_)
EjOuter(c) ==
  LET srcRem == Len(c.src) - c.pos
      dstRem == c.cap - c.w
      length == IF dstRem < srcRem THEN dstRem ELSE srcRem
      pending == IF dstRem < srcRem THEN "O" ELSE "I"
      n == AsciiCount(c.src, c.pos, length)
      c1 == CopyAscii(c, n)
      ok == IF U8(c.sink) THEN SpaceBmp(c1) ELSE TRUE
  IN  IF n = length THEN Ret(V0, pending, 0, 0, c1)
      ELSE IF ~ok THEN Ret(V0, "O", 0, 0, c1)
      ELSE EjMiddle(Adv(c1, 1), Peek(c1))

\* non_ascii has been consumed
EjMiddle(c, na) ==
  IF InR(na, 161, 254) \/ na = 143 \/ na = 142 THEN EjSeq([Blank EXCEPT !.a = na], c)
  ELSE Ret(V0, "M", 1, 0, c)

\* inside one call there is no space check between the bytes of a sequence
EjSeq(st, c) ==
  IF SrcEmpty(c) THEN (IF c.last THEN Ret(V0, "M", EjCount(st), 0, c) ELSE Ret(EjV(st), "I", 0, 0, c))
  ELSE LET t == EjByte(st, c) IN
    IF t.kind = "ret" THEN t.ret
    ELSE IF t.kind = "char" THEN EjAfter(t.c)
    ELSE EjSeq(t.st, t.c)

EjAfter(c) ==
  IF SrcEmpty(c) THEN Ret(V0, "I", 0, 0, c)
  ELSE IF ~SpaceBmp(c) THEN Ret(V0, "O", 0, 0, c)
  ELSE LET b == Peek(c)
           c1 == Adv(c, 1)
       IN  IF b > 127 THEN EjMiddle(c1, b) ELSE EjOuter(Wr(c1, <<b>>))

\* the "while !pending.is_none()" loop: source check, space check, one byte per iteration
RECURSIVE EjResume(_, _)
EjResume(v, c) ==
  IF v.st.a = 0 THEN EjOuter(c)
  ELSE IF SrcEmpty(c) THEN (IF c.last THEN Ret(V0, "M", EjCount(v.st), 0, c) ELSE Ret(v, "I", 0, 0, c))
  ELSE IF ~SpaceBmp(c) THEN Ret(v, "O", 0, 0, c)
  ELSE LET t == EjByte(v.st, c) IN
    IF t.kind = "ret" THEN t.ret
    ELSE IF t.kind = "char" THEN EjOuter(t.c)
    ELSE EjResume(EjV(t.st), t.c)

EucJpRaw(v, c) == EjResume(v, c)

(***************************************************************************)
(* VariantDecoder dispatch                                                 *)
(***************************************************************************)
ExactVariant(enc) == Family(enc) \in {"big5", "euckr", "sjis", "sb", "userdef", "repl", "iso2022jp", "utf8", "utf16be", "utf16le", "gb", "eucjp"}

Raw(enc, v, src, cap, last, sink) ==
  LET c == NewCtx(src, cap, last, sink)
      f == Family(enc)
  IN  CASE f \in {"big5", "euckr", "sjis"} -> TBRaw(enc, v, c)
        [] f = "sb" -> IF U8(sink) THEN TBRaw(enc, v, c) ELSE OneToOne16(enc, c)
        [] f = "userdef" -> IF U8(sink) THEN UserDefinedRaw8(c) ELSE OneToOne16(enc, c)
        [] f = "repl" -> ReplacementRaw(v, c)
        [] f = "iso2022jp" -> IsoRaw(v, c)
        [] f = "utf8" -> Utf8Loop(v, c)
        [] f = "utf16be" -> Utf16Raw(TRUE, v, c)
        [] f = "utf16le" -> Utf16Raw(FALSE, v, c)
        [] f = "gb" -> GbRaw(v, c)
        [] f = "eucjp" -> EucJpRaw(v, c)
        [] OTHER -> DFGeneric(enc, "bmp", v, c)

(***************************************************************************)
(* Decoder: life cycle (public_decode_function!)                           *)
(***************************************************************************)
NewDecoder(enc, mode) ==
  [enc |-> enc, v |-> InitVariant(enc),
   lc |-> IF mode = "off" THEN "Converting"
          ELSE IF mode = "sniff" THEN "AtStart"
          ELSE IF enc = "UTF-8" THEN "AtUtf8Start"
          ELSE IF enc = "UTF-16BE" THEN "AtUtf16BeStart"
          ELSE IF enc = "UTF-16LE" THEN "AtUtf16LeStart"
          ELSE "Converting"]

PRes(d, res, ml, ma, read, written, out) ==
  [d |-> d, res |-> res, ml |-> ml, ma |-> ma, read |-> read, written |-> written, out |-> out]

\* decode_to_utf_checking_end
CheckingEnd(d, src, cap, last, sink) ==
  LET r == Raw(d.enc, d.v, src, cap, last, sink)
      lc == IF last /\ r.res = "I" THEN "Finished" ELSE "Converting"
  IN  PRes([d EXCEPT !.v = r.v, !.lc = lc], r.res, r.ml, r.ma, r.read, r.written, r.out)

CheckingEndWithOffset(d, src, cap, last, sink, offset) ==
  LET r == CheckingEnd(d, SubSeq(src, offset + 1, Len(src)), cap, last, sink)
  IN  [r EXCEPT !.read = @ + offset]

LcForFirstByte(b) ==
  IF b = 239 THEN "SeenUtf8First" ELSE IF b = 254 THEN "SeenUtf16BeFirst" ELSE IF b = 255 THEN "SeenUtf16LeFirst"
  ELSE "ConvertingWithPendingBB"

\* decode_to_utf_after_one_potential_bom_byte
AfterOne(d0, src, cap, last, sink, offset, first) ==
  LET d == [d0 EXCEPT !.lc = "Converting"] IN
  IF offset = 0 THEN
    LET r1 == Raw(d.enc, d.v, <<first>>, cap, FALSE, sink)
        d1 == [d EXCEPT !.v = r1.v]
    IN  CASE r1.res = "I" ->
               (LET r2 == CheckingEnd(d1, src, cap - r1.written, last, sink)
                IN  [r2 EXCEPT !.written = @ + r1.written, !.out = r1.out \o @])      \* read: overwrite, don't add
          [] r1.res = "M" -> PRes(d1, "M", r1.ml, r1.ma, 0, r1.written, r1.out)
          [] r1.res = "O" -> PRes([d1 EXCEPT !.lc = LcForFirstByte(first)], "O", 0, 0, 0, r1.written, r1.out)  \* fix 8cbfac5
  ELSE CheckingEnd(d, src, cap, last, sink)

\* decode_to_utf_after_two_potential_bom_bytes
AfterTwo(d0, src, cap, last, sink, offset) ==
  LET d == [d0 EXCEPT !.lc = "Converting"] IN
  IF offset = 0 THEN
    LET r1 == Raw(d.enc, d.v, <<239, 187>>, cap, FALSE, sink)
        d1 == [d EXCEPT !.v = r1.v]
    IN  CASE r1.res = "I" ->
               (LET r2 == CheckingEnd(d1, src, cap - r1.written, last, sink)
                IN  [r2 EXCEPT !.written = @ + r1.written, !.out = r1.out \o @])
          [] r1.res = "M" ->
               IF r1.read = 1
               THEN PRes([d1 EXCEPT !.lc = "ConvertingWithPendingBB"], "M", r1.ml, r1.ma + 1, 0, r1.written, r1.out)  \* fix 8e67705
               ELSE PRes(d1, "M", r1.ml, r1.ma, 0, r1.written, r1.out)
          [] r1.res = "O" ->
               PRes([d1 EXCEPT !.lc = IF r1.read = 1 THEN "ConvertingWithPendingBB" ELSE "SeenUtf8Second"],
                    "O", 0, 0, 0, r1.written, r1.out)                                   \* fix 8cbfac5
  ELSE IF offset = 1 THEN AfterOne(d, src, cap, last, sink, 0, 239)
  ELSE CheckingEnd(d, src, cap, last, sink)

Morph(d, enc) == IF d.enc = enc THEN d ELSE [d EXCEPT !.enc = enc, !.v = InitVariant(enc)]

RECURSIVE PublicDecodeAt(_, _, _, _, _, _)
PublicDecodeAt(d, src, cap, last, sink, offset) ==
  LET lc == d.lc
      empty == offset >= Len(src)
      b == IF empty THEN -1 ELSE src[offset + 1]
      Go(newlc, off) == PublicDecodeAt([d EXCEPT !.lc = newlc], src, cap, last, sink, off)
  IN
  CASE lc = "Converting" -> CheckingEnd(d, src, cap, last, sink)
    [] lc = "AtStart" ->
         IF src = <<>> THEN PRes(d, "I", 0, 0, 0, 0, <<>>)
         ELSE IF b = 239 THEN Go("SeenUtf8First", 1)
         ELSE IF b = 254 THEN Go("SeenUtf16BeFirst", 1)
         ELSE IF b = 255 THEN Go("SeenUtf16LeFirst", 1)
         ELSE Go("Converting", 0)
    [] lc = "AtUtf8Start" ->
         IF src = <<>> THEN PRes(d, "I", 0, 0, 0, 0, <<>>)
         ELSE IF b = 239 THEN Go("SeenUtf8First", 1) ELSE Go("Converting", 0)
    [] lc = "AtUtf16BeStart" ->
         IF src = <<>> THEN PRes(d, "I", 0, 0, 0, 0, <<>>)
         ELSE IF b = 254 THEN Go("SeenUtf16BeFirst", 1) ELSE Go("Converting", 0)
    [] lc = "AtUtf16LeStart" ->
         IF src = <<>> THEN PRes(d, "I", 0, 0, 0, 0, <<>>)
         ELSE IF b = 255 THEN Go("SeenUtf16LeFirst", 1) ELSE Go("Converting", 0)
    [] lc = "SeenUtf8First" ->
         IF empty THEN (IF last THEN AfterOne(d, src, cap, last, sink, offset, 239) ELSE PRes(d, "I", 0, 0, offset, 0, <<>>))
         ELSE IF b = 187 THEN Go("SeenUtf8Second", offset + 1)
         ELSE AfterOne(d, src, cap, last, sink, offset, 239)
    [] lc = "SeenUtf8Second" ->
         IF empty THEN (IF last THEN AfterTwo(d, src, cap, last, sink, offset) ELSE PRes(d, "I", 0, 0, offset, 0, <<>>))
         ELSE IF b = 191 THEN CheckingEndWithOffset(Morph([d EXCEPT !.lc = "Converting"], "UTF-8"), src, cap, last, sink, offset + 1)
         ELSE AfterTwo(d, src, cap, last, sink, offset)
    [] lc = "SeenUtf16BeFirst" ->
         IF empty THEN (IF last THEN AfterOne(d, src, cap, last, sink, offset, 254) ELSE PRes(d, "I", 0, 0, offset, 0, <<>>))
         ELSE IF b = 255 THEN CheckingEndWithOffset(Morph([d EXCEPT !.lc = "Converting"], "UTF-16BE"), src, cap, last, sink, offset + 1)
         ELSE AfterOne(d, src, cap, last, sink, offset, 254)
    [] lc = "SeenUtf16LeFirst" ->
         IF empty THEN (IF last THEN AfterOne(d, src, cap, last, sink, offset, 255) ELSE PRes(d, "I", 0, 0, offset, 0, <<>>))
         ELSE IF b = 254 THEN CheckingEndWithOffset(Morph([d EXCEPT !.lc = "Converting"], "UTF-16LE"), src, cap, last, sink, offset + 1)
         ELSE AfterOne(d, src, cap, last, sink, offset, 255)
    [] lc = "ConvertingWithPendingBB" -> AfterOne(d, src, cap, last, sink, 0, 187)
    [] lc = "Finished" -> PRes(d, "P", 0, 0, 0, 0, <<>>)

\* decode_to_utf8_without_replacement / decode_to_utf16_without_replacement
PublicDecode(d, src, cap, last, sink) == PublicDecodeAt(d, src, cap, last, sink, 0)

(***************************************************************************)
(* decode_to_utf8 / decode_to_utf16: the with-replacement loop.  Writing   *)
(* U+FFFD uses bounds-checked indexing: a missing space guarantee is a     *)
(* panic ("P"), not undefined behaviour.                                   *)
(***************************************************************************)
RECURSIVE WithReplLoop(_, _, _, _, _, _, _, _, _)
WithReplLoop(d, src, cap, last, sink, tr, tw, out, had) ==
  LET r == PublicDecode(d, SubSeq(src, tr + 1, Len(src)), cap - tw, last, sink)
      tr1 == tr + r.read
      tw1 == tw + r.written
      out1 == out \o r.out
      need == IF U8(sink) THEN 3 ELSE 1
  IN  IF r.res = "P" THEN [r EXCEPT !.read = tr1, !.written = tw1, !.out = out1] @@ [had |-> had]
      ELSE IF r.res = "M" THEN
        (IF tw1 + need > cap THEN PRes(r.d, "P", 0, 0, tr1, tw1, out1) @@ [had |-> TRUE]
         ELSE WithReplLoop(r.d, src, cap, last, sink, tr1, tw1 + need, Append(out1, 65533), TRUE))
      ELSE PRes(r.d, r.res, 0, 0, tr1, tw1, out1) @@ [had |-> had]

DecodeWithReplacement(d, src, cap, last, sink) == WithReplLoop(d, src, cap, last, sink, 0, 0, <<>>, FALSE)

Decode(d, src, cap, last, sink, repl) ==
  IF repl THEN DecodeWithReplacement(d, src, cap, last, sink)
  ELSE PublicDecode(d, src, cap, last, sink) @@ [had |-> FALSE]

(***************************************************************************)
(* Decoder::latin1_byte_compatible_up_to (lib.rs life-cycle arms over      *)
(* VariantDecoder::latin1_byte_compatible_up_to, variant.rs, and each      *)
(* variant's in_neutral_state).  -1 = None, -2 = panic (finished decoder). *)
(***************************************************************************)
FirstWhere(bytes, P(_)) ==
  LET idx == {j \in 1..Len(bytes) : P(bytes[j])}
  IN  IF idx = {} THEN Len(bytes) ELSE (CHOOSE j \in idx : \A q \in idx : j <= q) - 1

\* Encoding::ascii_valid_up_to / iso_2022_jp_ascii_valid_up_to / SingleByteDecoder::latin1_byte_compatible_up_to
AsciiValidUpTo(bytes) == FirstWhere(bytes, LAMBDA b : b >= 128)
IsoAsciiValidUpTo(bytes) == FirstWhere(bytes, LAMBDA b : b >= 128 \/ IsoBad(b))
SbLatin1UpTo(enc, bytes) == FirstWhere(bytes, LAMBDA b : b >= 128 /\ Lookup(SbTables[enc], b - 128) # b)

VariantNeutral(enc, v) ==
  LET f == Family(enc) IN
  CASE f \in {"big5", "euckr", "sjis"} -> v.lead = 0
    [] f = "eucjp" -> v.st.a = 0
    [] f = "gb" -> v.st.a = 0 /\ v.st.b = 0 /\ v.st.c = 0 /\ v.lead = 0
    [] f = "utf8" -> v.st.c = 0
    [] f = "iso2022jp" -> v.st.s = "ascii" /\ v.st.t = "ascii" /\ v.st.a = 0 /\ ~v.st.o /\ ~v.pp
    [] OTHER -> TRUE

VariantLatin1(enc, v, bytes) ==
  LET f == Family(enc) IN
  CASE f = "sb" -> SbLatin1UpTo(enc, bytes)
    [] f \in {"repl", "utf16be", "utf16le"} -> -1
    [] f = "iso2022jp" -> (IF VariantNeutral(enc, v) THEN IsoAsciiValidUpTo(bytes) ELSE -1)
    [] f = "userdef" -> AsciiValidUpTo(bytes)
    [] OTHER -> (IF VariantNeutral(enc, v) THEN AsciiValidUpTo(bytes) ELSE -1)

DecoderLatin1(d, bytes) ==
  IF d.lc = "Converting" THEN VariantLatin1(d.enc, d.v, bytes)
  ELSE IF d.lc = "Finished" THEN -2
  ELSE -1
=============================================================================
