---------------------------- MODULE LabelScanner ----------------------------
(***************************************************************************)
(* Layer I: Encoding::for_label (lib.rs) - the three-phase scanner         *)
(* (before / inside / after) with the LONGEST_LABEL_LENGTH = 19 cut-off,   *)
(* followed by the table lookup.  The binary search over LABELS_SORTED is  *)
(* modelled as membership in the label set (the sort order is data; it is  *)
(* checked on the real code by trace validation).                          *)
(***************************************************************************)
EXTENDS Labels

LongestLabelLength == 19

IsWsByte(b) == b = 9 \/ b = 10 \/ b = 12 \/ b = 13 \/ b = 32
IsUpper(b) == b >= 65 /\ b <= 90
IsLabelByte(b) == (b >= 97 /\ b <= 122) \/ (b >= 48 /\ b <= 57) \/ b = 45 \/ b = 95 \/ b = 58 \/ b = 46

\* result: "" = None, otherwise the trimmed candidate goes to the lookup
RECURSIVE After(_, _, _), Inside(_, _, _), Before(_, _)
After(s, i, trimmed) ==
  IF i > Len(s) THEN [ok |-> TRUE, t |-> trimmed]
  ELSE IF IsWsByte(s[i]) THEN After(s, i + 1, trimmed)
  ELSE [ok |-> FALSE, t |-> <<>>]

Inside(s, i, trimmed) ==
  IF i > Len(s) THEN [ok |-> TRUE, t |-> trimmed]
  ELSE LET b == s[i] IN
    IF IsWsByte(b) THEN After(s, i + 1, trimmed)
    ELSE IF IsUpper(b) \/ IsLabelByte(b) THEN
      (IF Len(trimmed) = LongestLabelLength THEN [ok |-> FALSE, t |-> <<>>]
       ELSE Inside(s, i + 1, Append(trimmed, IF IsUpper(b) THEN b + 32 ELSE b)))
    ELSE [ok |-> FALSE, t |-> <<>>]

Before(s, i) ==
  IF i > Len(s) THEN [ok |-> FALSE, t |-> <<>>]
  ELSE LET b == s[i] IN
    IF IsWsByte(b) THEN Before(s, i + 1)
    ELSE IF IsUpper(b) THEN Inside(s, i + 1, <<b + 32>>)
    ELSE IF IsLabelByte(b) THEN Inside(s, i + 1, <<b>>)
    ELSE [ok |-> FALSE, t |-> <<>>]

ForLabel(s) ==
  LET r == Before(s, 1) IN
  IF ~r.ok THEN "" ELSE IF r.t \in LabelSet THEN LabelMap[r.t] ELSE ""
=============================================================================
