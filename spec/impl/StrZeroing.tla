----------------------------- MODULE StrZeroing -----------------------------
(***************************************************************************)
(* Layer I: the clean-up that Decoder::decode_to_str*, and                 *)
(* mem::convert_{utf16,latin1}_to_str_partial perform after the raw        *)
(* conversion wrote `written` bytes (and possibly garbage after them) into *)
(* a buffer that held valid UTF-8 before:                                  *)
(*   - unless the converter is the UTF-8 decoder (which writes no          *)
(*     garbage), zero min(len, written + K) (K = MAX_STRIDE_SIZE);         *)
(*   - then zero continuation bytes until the first non-continuation byte. *)
(* Claim checked by TLC (MC_StrZeroing): if the old buffer was valid, the  *)
(* written prefix is valid and garbage is confined to the K bytes after    *)
(* it, the result is valid UTF-8 in its entirety.                          *)
(***************************************************************************)
EXTENDS Unicode

IsCont(b) == b >= 128 /\ b <= 191

RECURSIVE StripCont(_, _)
StripCont(bytes, i) ==
  IF i > Len(bytes) \/ ~IsCont(bytes[i]) THEN bytes
  ELSE StripCont([bytes EXCEPT ![i] = 0], i + 1)

\* bytes after the raw conversion; written = number of bytes reported
CleanUp(bytes, written, isUtf8Decoder, K) ==
  LET len == Len(bytes)
      max == IF isUtf8Decoder THEN written ELSE Min(len, written + K)
      zeroed == [i \in 1..len |-> IF i > written /\ i <= max THEN 0 ELSE bytes[i]]
  IN  StripCont(zeroed, max + 1)
=============================================================================
