---------------------------- MODULE ImplOneShot ----------------------------
(***************************************************************************)
(* Layer I: the non-streaming decode API of Encoding (lib.rs):             *)
(*   decode, decode_with_bom_removal, decode_without_bom_handling,         *)
(*   decode_without_bom_handling_and_without_replacement.                  *)
(* Transcribed: Encoding::for_bom, the own-BOM strip, the borrow decision  *)
(* (utf8_valid_up_to / iso_2022_jp_ascii_valid_up_to / ascii_valid_up_to   *)
(* == len), the first allocation                                           *)
(*   min(next_power_of_two(valid_up_to + max_without_replacement(rest)),   *)
(*       valid_up_to + max_with_replacement(rest)),                        *)
(* the decode_to_string loop that accumulates had_errors and reserves      *)
(* max_utf8_buffer_length(remaining) more on OutputFull (String::reserve   *)
(* grows amortised: max(8, 2 * capacity, len + needed)), and the single    *)
(* decode_to_string_without_replacement call of the last form, whose       *)
(* OutputFull arm is unreachable!().  The streaming decoder underneath is  *)
(* Layer I's (ImplDecoder, MaxLen).                                        *)
(* Result: [text (UTF-8 bytes), used, had, none, borrowed, panic, allocs]. *)
(***************************************************************************)
EXTENDS MaxLen

RECURSIVE Pow2From(_, _)
Pow2From(p, n) == IF p >= n THEN p ELSE Pow2From(2 * p, n)
NextPow2(n) == Pow2From(1, n)                     \* usize::checked_next_power_of_two (0 -> 1)

StartsWith(bytes, pre) == Len(bytes) >= Len(pre) /\ SubSeq(bytes, 1, Len(pre)) = pre
Drop(bytes, k) == SubSeq(bytes, k + 1, Len(bytes))

\* Encoding::for_bom
ForBomImpl(bytes) ==
  IF StartsWith(bytes, <<239, 187, 191>>) THEN [enc |-> "UTF-8", len |-> 3]
  ELSE IF StartsWith(bytes, <<255, 254>>) THEN [enc |-> "UTF-16LE", len |-> 2]
  ELSE IF StartsWith(bytes, <<254, 255>>) THEN [enc |-> "UTF-16BE", len |-> 2]
  ELSE [enc |-> "", len |-> 0]

PotentiallyBorrowable(enc) == enc \notin {"replacement", "UTF-16BE", "UTF-16LE"}

ValidUpToFor(enc, bytes) ==
  IF enc = "UTF-8" THEN Utf8ValidUpTo(bytes)
  ELSE IF enc = "ISO-2022-JP" THEN IsoAsciiValidUpTo(bytes)
  ELSE AsciiValidUpTo(bytes)

OSRes(text, had, none, borrowed, panic, allocs) ==
  [text |-> text, had |-> had, none |-> none, borrowed |-> borrowed, panic |-> panic, allocs |-> allocs]

\* the loop of decode_without_bom_handling; text = the String's bytes, cap = its capacity
RECURSIVE OSLoop(_, _, _, _, _, _, _, _)
OSLoop(d, bytes, totalRead, text, cap, had, allocs, fuel) ==
  IF fuel = 0 THEN OSRes(text, had, FALSE, FALSE, TRUE, allocs)          \* the loop did not terminate within the fuel: reported as a panic
  ELSE
  LET r == Decode(d, Drop(bytes, totalRead), cap - Len(text), TRUE, "utf8", TRUE)      \* decode_to_string(.., last = true)
  IN  IF r.res = "P" THEN OSRes(text, had, FALSE, FALSE, TRUE, allocs)
      ELSE
      LET text1 == text \o ScalarsToUtf8(r.out)
          read1 == totalRead + r.read
          had1 == had \/ r.had
      IN  IF r.res = "I" THEN OSRes(text1, had1, FALSE, FALSE, FALSE, allocs)
          ELSE LET needed == DecoderMax(r.d, Len(bytes) - read1, "utf8wr")
                   cap1 == Max(8, Max(2 * cap, Len(text1) + needed))                   \* String::reserve (amortised growth)
               IN  OSLoop(r.d, bytes, read1, text1, IF cap - Len(text1) >= needed THEN cap ELSE cap1, had1,
                          IF cap - Len(text1) >= needed THEN allocs ELSE allocs + 1, fuel - 1)

OSDecodeWithoutBomHandling(enc, bytes) ==
  LET n == Len(bytes)
      bor == PotentiallyBorrowable(enc)
      vut == IF bor THEN ValidUpToFor(enc, bytes) ELSE 0
  IN  IF bor /\ vut = n THEN OSRes(bytes, FALSE, FALSE, TRUE, FALSE, 0)
      ELSE LET d0 == NewDecoder(enc, "off")
               rounded == NextPow2(vut + DecoderMax(d0, n - vut, "utf8"))
               withRepl == vut + DecoderMax(d0, n - vut, "utf8wr")
           IN  OSLoop(d0, bytes, vut, SubSeq(bytes, 1, vut), Min(rounded, withRepl), FALSE, 1, 2 * n + 8)

OSDecodeWithBomRemoval(enc, bytes) ==
  LET rest == IF enc = "UTF-8" /\ StartsWith(bytes, <<239, 187, 191>>) THEN Drop(bytes, 3)
              ELSE IF (enc = "UTF-16LE" /\ StartsWith(bytes, <<255, 254>>)) \/ (enc = "UTF-16BE" /\ StartsWith(bytes, <<254, 255>>))
                   THEN Drop(bytes, 2)
              ELSE bytes
  IN  OSDecodeWithoutBomHandling(enc, rest)

OSDecodeWithoutReplacement(enc, bytes) ==
  LET n == Len(bytes) IN
  IF enc = "UTF-8" THEN
    (IF Utf8ValidUpTo(bytes) = n THEN OSRes(bytes, FALSE, FALSE, TRUE, FALSE, 0) ELSE OSRes(<<>>, FALSE, TRUE, FALSE, FALSE, 0))
  ELSE
  LET bor == PotentiallyBorrowable(enc)
      vut == IF bor THEN ValidUpToFor(enc, bytes) ELSE 0
  IN  IF bor /\ vut = n THEN OSRes(bytes, FALSE, FALSE, TRUE, FALSE, 0)
      ELSE LET d0 == NewDecoder(enc, "off")
               cap == vut + DecoderMax(d0, n - vut, "utf8")
               r == Decode(d0, Drop(bytes, vut), cap - vut, TRUE, "utf8", FALSE)
           IN  IF r.res = "I" THEN OSRes(SubSeq(bytes, 1, vut) \o ScalarsToUtf8(r.out), FALSE, FALSE, FALSE, FALSE, 1)
               ELSE IF r.res = "M" THEN OSRes(<<>>, FALSE, TRUE, FALSE, FALSE, 1)
               ELSE OSRes(<<>>, FALSE, FALSE, FALSE, TRUE, 1)              \* unreachable!() or a panic below

\* the four entry points; used = the encoding reported (decode) or the receiver
OneShotDecode(enc, api, bytes) ==
  IF api = "decode" THEN
    LET b == ForBomImpl(bytes)
        e == IF b.enc = "" THEN enc ELSE b.enc
    IN  OSDecodeWithoutBomHandling(e, Drop(bytes, b.len)) @@ [used |-> e]
  ELSE IF api = "decode_with_bom_removal" THEN OSDecodeWithBomRemoval(enc, bytes) @@ [used |-> enc]
  ELSE IF api = "decode_without_bom_handling" THEN OSDecodeWithoutBomHandling(enc, bytes) @@ [used |-> enc]
  ELSE OSDecodeWithoutReplacement(enc, bytes) @@ [used |-> enc]
=============================================================================
