---------------------------- MODULE ImplEncoder ----------------------------
(***************************************************************************)
(* Layer I: implementation-shaped model of encoding_rs::Encoder.           *)
(*   ascii_compatible_encoder_function! / ..._bmp_encoder_function!        *)
(*        Big5, EUC-KR, EUC-JP, Shift_JIS (check_space_two), gb18030/GBK   *)
(*        (check_space_four), single-byte from UTF-8 (check_space_one)     *)
(*   encoder_function! with the Iso2022JpEncoder eof and body blocks       *)
(*   Encoder::encode_from_utf8 / encode_from_utf16 (NCR wrapper)           *)
(* WHAT a scalar encodes to comes from Layer S; HOW a call proceeds (space *)
(* checks, unread, stopping points, state kept) is transcribed.            *)
(* The source is a sequence of items [cp, ul]: scalar value and its length *)
(* in source units (an unpaired surrogate of a UTF-16 source is U+FFFD     *)
(* with ul = 1).                                                           *)
(***************************************************************************)
EXTENDS EncoderMonitor

\* the source form of the model instance (MC_Enc instantiates it with its constant Source)
CONSTANT EncSource

\* call context: src = items, pos = index of next item, ru = units read, rem = cap - written, out = bytes written
ECtx(src, cap, last) == [src |-> src, pos |-> 0, ru |-> 0, cap |-> cap, w |-> 0, out |-> <<>>, last |-> last]
ERem(c) == c.cap - c.w
ESrcEmpty(c) == c.pos >= Len(c.src)
EPeek(c) == c.src[c.pos + 1]
EAdv(c) == [c EXCEPT !.pos = @ + 1, !.ru = @ + c.src[c.pos + 1].ul]
EWr(c, bytes) == [c EXCEPT !.w = @ + Len(bytes), !.out = @ \o bytes]
ERet(st, res, um, c) == [st |-> st, res |-> res, um |-> um, read |-> c.ru, written |-> c.w, out |-> c.out]

RECURSIVE SrcUnitsFrom(_, _)
SrcUnitsFrom(src, i) == IF i > Len(src) THEN 0 ELSE src[i].ul + SrcUnitsFrom(src, i + 1)

(***************************************************************************)
(* ascii_compatible_encoder_function!                                      *)
(***************************************************************************)
ACSpace(enc) == IF Family(enc) = "gb" THEN 4 ELSE IF Family(enc) = "sb" THEN 1 ELSE 2
ACPunct(enc) == enc = "EUC-KR" \/ Family(enc) = "sb"
ACExact(enc) == Family(enc) \in {"big5", "euckr", "eucjp", "sjis", "gb", "sb"}

RECURSIVE ACOuter(_, _), ACMiddle(_, _, _), ACInner(_, _, _)
\* 'outermost: source.copy_ascii_to_check_space_N(&mut dest)
ACOuter(enc, c) ==
  LET srcRem == SrcUnitsFrom(c.src, c.pos + 1)
      dstRem == ERem(c)
      length == IF dstRem < srcRem THEN dstRem ELSE srcRem
      pending == IF dstRem < srcRem THEN "O" ELSE "I"
      \* leading ASCII items (one unit each)
      nonAscii == {j \in (c.pos + 1)..Len(c.src) : c.src[j].cp >= 128}
      run == IF nonAscii = {} THEN Len(c.src) - c.pos ELSE (CHOOSE j \in nonAscii : \A q \in nonAscii : j <= q) - c.pos - 1
      n == IF run < length THEN run ELSE length
      c1 == [c EXCEPT !.pos = @ + n, !.ru = @ + n, !.w = @ + n,
                      !.out = @ \o [j \in 1..n |-> c.src[c.pos + j].cp]]
  IN  IF run >= length THEN ERet("", pending, 0, c1)
      ELSE IF ERem(c1) < ACSpace(enc) THEN ERet("", "O", 0, c1)
      ELSE ACMiddle(enc, EAdv(c1), EPeek(c1).cp)

\* 'middle: a non-ASCII scalar has been read and space is guaranteed
ACMiddle(enc, c, cp) ==
  LET b == ScalarBytes(enc, cp) IN
  IF b = <<>> THEN ERet("", "U", cp, c)
  ELSE LET c1 == EWr(c, b) IN
    IF ESrcEmpty(c1) THEN ERet("", "I", 0, c1)
    ELSE IF ERem(c1) < ACSpace(enc) THEN ERet("", "O", 0, c1)
    ELSE ACInner(enc, EAdv(c1), EPeek(c1).cp)

\* 'innermost: the next scalar has been read (read_enum) and space is guaranteed
ACInner(enc, c, cp) ==
  IF cp >= 128 THEN ACMiddle(enc, c, cp)
  ELSE LET c1 == EWr(c, <<cp>>) IN
    IF ACPunct(enc) /\ cp < 60 THEN
      (IF ESrcEmpty(c1) THEN ERet("", "I", 0, c1)
       ELSE IF ERem(c1) < ACSpace(enc) THEN ERet("", "O", 0, c1)
       ELSE ACInner(enc, EAdv(c1), EPeek(c1).cp))
    ELSE ACOuter(enc, c1)

(***************************************************************************)
(* Iso2022JpEncoder (encoder_function!, destination_check =                *)
(* check_space_three).  One loop iteration = one invocation of the         *)
(* Standard's handler: write a character, or write an escape and un-read,  *)
(* or report Unmappable (after ESC ( B when leaving the jis0208 state).    *)
(***************************************************************************)
StateOfEsc(v) == IF v = EscAscii THEN "ascii" ELSE IF v = EscRoman THEN "roman" ELSE "jis0208"

RECURSIVE IsoEncLoop(_, _)
IsoEncLoop(st, c) ==
  IF ESrcEmpty(c) THEN
    IF c.last /\ st # "ascii" THEN
      (IF ERem(c) < 3 THEN ERet(st, "O", 0, c) ELSE ERet("ascii", "I", 0, EWr(c, EscAscii)))
    ELSE ERet(st, "I", 0, c)
  ELSE IF ERem(c) < 3 THEN ERet(st, "O", 0, c)
  ELSE
    LET cp == EPeek(c).cp
        atoms == IsoEncOne(st, cp, 0, <<>>).atoms
        a1 == atoms[1]
    IN  IF a1.k = "u" THEN ERet(st, "U", a1.v[1], EAdv(c))
        ELSE IF a1.k = "b" THEN IsoEncLoop(st, EWr(EAdv(c), a1.v))
        ELSE IF Len(atoms) >= 2 /\ atoms[2].k = "u" /\ cp >= 128
          \* unmappable non-ASCII character met in the jis0208 state: write_three_return_written + Unmappable in one step
          \* (an ASCII-range character - also 0x0E/0x0F/0x1B - takes the escape-and-unread path below instead)
          THEN ERet("ascii", "U", atoms[2].v[1], EWr(EAdv(c), a1.v))
          ELSE IsoEncLoop(StateOfEsc(a1.v), EWr(c, a1.v))                  \* escape written, character un-read

(***************************************************************************)
(* Utf8Encoder: from UTF-8 a memcpy backed up to a sequence boundary, from *)
(* UTF-16 convert_utf16_to_utf8_partial - both are "as many whole          *)
(* characters as fit".                                                     *)
(***************************************************************************)
RECURSIVE Utf8EncLoop(_)
Utf8EncLoop(c) ==
  IF ESrcEmpty(c) THEN ERet("", "I", 0, c)
  ELSE LET b == Utf8Encode(EPeek(c).cp) IN
    IF Len(b) > ERem(c) THEN ERet("", "O", 0, c) ELSE Utf8EncLoop(EWr(EAdv(c), b))

(***************************************************************************)
(* UserDefinedEncoder: encoder_functions! with check_space_one.            *)
(***************************************************************************)
RECURSIVE UserDefEncLoop(_)
UserDefEncLoop(c) ==
  IF ESrcEmpty(c) THEN ERet("", "I", 0, c)
  ELSE IF ERem(c) < 1 THEN ERet("", "O", 0, c)
  ELSE LET cp == EPeek(c).cp
           b == ScalarBytes("x-user-defined", cp)
       IN  IF b = <<>> THEN ERet("", "U", cp, EAdv(c)) ELSE UserDefEncLoop(EWr(EAdv(c), b))

(***************************************************************************)
(* SingleByteEncoder::encode_from_utf16_raw (after fix f6848a4): one byte  *)
(* per unit, bounded by min(src units, dst); an unmappable unit ends the   *)
(* call (a surrogate pair is looked at across the bound, in src).          *)
(***************************************************************************)
RECURSIVE Sb16Loop(_, _, _)
Sb16Loop(enc, c, length) ==      \* c.ru = units converted so far
  IF c.ru >= length THEN ERet("", IF length < SrcUnitsFrom(c.src, 1) THEN "O" ELSE "I", 0, c)
  ELSE LET it == EPeek(c)
           b == ScalarBytes(enc, it.cp)
       IN  IF b # <<>> /\ it.ul = 1 THEN Sb16Loop(enc, EWr(EAdv(c), b), length)
           ELSE ERet("", "U", it.cp, EAdv(c))

SbEncode16(enc, c) ==
  LET srcUnits == SrcUnitsFrom(c.src, 1)
      length == IF c.cap < srcUnits THEN c.cap ELSE srcUnits
  IN  Sb16Loop(enc, c, length)

(***************************************************************************)
(* VariantEncoder dispatch (without replacement)                           *)
(***************************************************************************)
EncExact(enc, source) == enc = "ISO-2022-JP" \/ (ACExact(enc) /\ ~(Family(enc) = "sb" /\ source = "utf16"))

\* source = "utf8" / "utf16" matters only for the single-byte encoders (two different loops)
RawEncodeFrom(enc, st, src, cap, last, source) ==
  LET c == ECtx(src, cap, last)
      f == Family(enc)
  IN  IF enc = "ISO-2022-JP" THEN IsoEncLoop(st, c)
      ELSE IF f = "utf8" THEN Utf8EncLoop(c)
      ELSE IF f = "userdef" THEN UserDefEncLoop(c)
      ELSE IF f = "sb" /\ source = "utf16" THEN SbEncode16(enc, c)
      ELSE ACOuter(enc, c)

RawEncode(enc, st, src, cap, last) == RawEncodeFrom(enc, st, src, cap, last, EncSource)

(***************************************************************************)
(* Encoder::encode_from_utf8 / encode_from_utf16: the NCR wrapper.         *)
(***************************************************************************)
NcrExtra == 10

RECURSIVE NcrLoop(_, _, _, _, _, _, _, _, _)
NcrLoop(enc, st, src, cap, eff, last, c0, had, base) ==
  \* c0 accumulates totals: pos (items consumed), ru, w, out
  LET rest == SubSeq(src, c0.pos + 1, Len(src))
      r == RawEncode(enc, st, rest, eff - c0.w, last)
      items == UnitsToCount(rest, r.read, 1, 0)
      c1 == [c0 EXCEPT !.pos = @ + items, !.ru = @ + r.read, !.w = @ + r.written, !.out = @ \o r.out]
      pendingState == enc = "ISO-2022-JP" /\ r.st # "ascii"
  IN  IF r.res = "I" THEN [st |-> r.st, res |-> "I", um |-> 0, read |-> c1.ru, written |-> c1.w, out |-> c1.out, had |-> had]
      ELSE IF r.res = "O" THEN [st |-> r.st, res |-> "O", um |-> 0, read |-> c1.ru, written |-> c1.w, out |-> c1.out, had |-> had]
      ELSE
        LET c2 == [c1 EXCEPT !.w = @ + Len(Ncr(r.um)), !.out = @ \o Ncr(r.um)] IN
        IF c2.w >= eff THEN
          [st |-> r.st, res |-> IF c2.pos = Len(src) /\ ~(last /\ pendingState) THEN "I" ELSE "O", um |-> 0,
           read |-> c2.ru, written |-> c2.w, out |-> c2.out, had |-> TRUE]
        ELSE NcrLoop(enc, r.st, src, cap, eff, last, c2, TRUE, base)

EncodeWithReplacement(enc, st, src, cap, last) ==
  LET canAll == Family(enc) = "utf8"
      pendingState == enc = "ISO-2022-JP" /\ st # "ascii"
  IN  IF ~canAll /\ cap < NcrExtra THEN
        [st |-> st, res |-> IF src = <<>> /\ ~(last /\ pendingState) THEN "I" ELSE "O", um |-> 0, read |-> 0, written |-> 0,
         out |-> <<>>, had |-> FALSE]
      ELSE NcrLoop(enc, st, src, cap, IF canAll THEN cap ELSE cap - NcrExtra, last,
                   [pos |-> 0, ru |-> 0, w |-> 0, out |-> <<>>], FALSE, 0)

(***************************************************************************)
(* max_buffer_length_from_utf{8,16}_{without_replacement,if_no_unmappables} *)
(* (lib.rs Encoder::max_buffer_length_*; per-variant formulas of            *)
(* single_byte.rs, utf_8.rs, x_user_defined.rs, big5.rs, euc_kr.rs,         *)
(* euc_jp.rs, shift_jis.rs, gb18030.rs (extended = gb18030, otherwise GBK), *)
(* iso_2022_jp.rs).  n = number of source code units.  None of the          *)
(* formulas depends on the encoder's state.  usize overflow is outside the  *)
(* model (decided on real calls by the QO events of MiscMonitor).           *)
(***************************************************************************)
EncVariantMax(enc, n) ==
  CASE enc = "UTF-8"        -> IF EncSource = "utf16" THEN 3 * n ELSE n
    [] enc \in {"Big5", "EUC-KR", "EUC-JP", "Shift_JIS"} -> IF EncSource = "utf16" THEN 2 * n ELSE n + 1
    [] enc = "gb18030"      -> IF EncSource = "utf16" THEN 4 * n ELSE 2 * n + 2
    [] enc = "GBK"          -> IF EncSource = "utf16" THEN 2 * n + 2 ELSE n + 3
    [] enc = "ISO-2022-JP"  -> IF EncSource = "utf16" THEN 3 + 4 * n + ((n + 1) \div 2) ELSE 3 + 3 * n
    [] OTHER                -> n          \* single-byte family and x-user-defined

EncoderMax(enc, n, repl) ==
  EncVariantMax(enc, n) + (IF repl /\ enc # "UTF-8" THEN NcrExtra ELSE 0)

Encode(enc, st, src, cap, last, repl) ==
  IF repl THEN EncodeWithReplacement(enc, st, src, cap, last)
  ELSE RawEncode(enc, st, src, cap, last) @@ [had |-> FALSE]
=============================================================================
