------------------------------- MODULE MaxLen -------------------------------
(***************************************************************************)
(* Layer I: Decoder::max_utf16_buffer_length, max_utf8_buffer_length and   *)
(* max_utf8_buffer_length_without_replacement - the life-cycle arms        *)
(* (lib.rs) over the variant formulas (one per decoder file), evaluated on *)
(* the Layer I decoder state.  kind in {"utf16", "utf8", "utf8wr"}         *)
(* (utf8 = without replacement).  Overflow (checked_* -> None) is outside  *)
(* the model's integers and is judged on the real code by the C07          *)
(* overflow clause.                                                        *)
(***************************************************************************)
EXTENDS ImplDecoder

Max2(a, b) == IF a > b THEN a ELSE b

\* variant formula for n further bytes in variant state v
VariantMax(enc, v, n, kind) ==
  LET f == Family(enc)
      L == n + (IF v.lead # 0 THEN 1 ELSE 0)
  IN
  CASE f \in {"sb", "userdef"} -> (IF kind = "utf16" THEN n ELSE 3 * n)
    [] f = "big5" -> (IF kind = "utf16" THEN L + 1 ELSE IF kind = "utf8" THEN 2 * L + 2 ELSE 3 * L + 3)
    [] f = "euckr" -> (IF kind = "utf16" THEN L ELSE IF kind = "utf8" THEN L + ((L + 1) \div 2) + 2 ELSE 3 * L)
    [] f = "sjis" -> (IF kind = "utf16" THEN L ELSE 3 * L)
    [] f = "eucjp" ->
         \* plus_one_if_lead: +1 for any pending state
         (LET E == n + (IF v.st.a # 0 THEN 1 ELSE 0)
          IN  IF kind = "utf16" THEN E ELSE IF kind = "utf8" THEN E + ((E + 1) \div 2) + 2 ELSE 3 * E)
    [] f = "repl" -> (IF kind = "utf16" THEN 1 ELSE 3)
    [] f = "gb" ->
         \* extra_from_state = pending count + (pending_ascii ? 1 : 0)
         (LET x == n + (IF v.st.c # 0 THEN 3 ELSE IF v.st.b # 0 THEN 2 ELSE IF v.st.a # 0 THEN 1 ELSE 0) + (IF v.lead # 0 THEN 1 ELSE 0)
          IN  IF kind = "utf16" THEN x + 1 ELSE 3 * x + 1)
    [] f = "iso2022jp" ->
         (LET flag == IF v.st.o THEN 1 ELSE 0
              i == n + (IF v.st.a = 0 \/ v.pp THEN 0 ELSE 1) + (IF v.st.s \in {"esc", "escstart"} THEN 1 ELSE 0)
              o == IF v.st.a # 0 /\ v.pp THEN 1 + flag ELSE flag
          IN  IF kind = "utf16" THEN i + o ELSE 3 * (i + o))
    [] f = "utf8" ->
         (LET e == IF v.st.c = 0 THEN 0 ELSE v.st.b + 1
          IN  IF kind = "utf16" THEN n + 1 + e ELSE IF kind = "utf8" THEN n + 3 + e ELSE 3 * (n + e) + 3)
    [] f \in {"utf16be", "utf16le"} ->
         (LET a == 1 + (IF v.st.a # 0 THEN 1 ELSE 0) + (IF v.st.b # 0 \/ v.pp THEN 2 ELSE 0)      \* a pending BMP unit counts even when it is U+0000 (fix 6580834)
          IN  IF kind = "utf16" THEN ((n + a) \div 2) + 1 ELSE 3 * ((n + a) \div 2) + 1)
    [] OTHER -> 3 * n + 16          \* variants without a transcribed formula (not used in the MC configurations)

Utf8Bom(n, kind) == IF kind = "utf16" THEN n + 1 ELSE IF kind = "utf8" THEN n + 3 ELSE 3 * n + 3
Utf16Bom(n, kind) == IF kind = "utf16" THEN ((n + 1) \div 2) + 1 ELSE 3 * ((n + 1) \div 2) + 1

DecoderMax(d, n, kind) ==
  LET lc == d.lc
      own(k) == VariantMax(d.enc, d.v, k, kind)
      isUtf == d.enc \in {"UTF-8", "UTF-16LE", "UTF-16BE"}
  IN
  CASE lc \in {"Converting", "AtUtf8Start", "AtUtf16LeStart", "AtUtf16BeStart"} -> own(n)
    [] lc = "AtStart" ->
         (LET bom == Max2(Utf8Bom(n, kind), Utf16Bom(n, kind)) IN IF isUtf THEN bom ELSE Max2(bom, own(n)))
    [] lc \in {"SeenUtf8First", "SeenUtf8Second"} ->
         (IF d.enc = "UTF-8" THEN Utf8Bom(n + 2, kind) ELSE Max2(Utf8Bom(n + 2, kind), own(n + 2)))
    [] lc = "ConvertingWithPendingBB" -> own(n + 2)
    [] lc \in {"SeenUtf16LeFirst", "SeenUtf16BeFirst"} ->
         (IF d.enc \in {"UTF-16LE", "UTF-16BE"} THEN Utf16Bom(n + 2, kind) ELSE Max2(Utf16Bom(n + 2, kind), own(n + 2)))
    [] OTHER -> 0

QueryKind(sink, repl) == IF ~U8(sink) THEN "utf16" ELSE IF repl THEN "utf8wr" ELSE "utf8"
=============================================================================
