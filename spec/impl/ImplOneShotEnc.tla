--------------------------- MODULE ImplOneShotEnc ---------------------------
(***************************************************************************)
(* Layer I: Encoding::encode (lib.rs), the non-streaming encoder.          *)
(* Transcribed: output_encoding(); the unconditional borrow when that is   *)
(* UTF-8; the ASCII (ISO-2022-JP: ASCII-state) prefix scan and the borrow  *)
(* when it covers the whole text; the first allocation                     *)
(*   next_power_of_two(valid_up_to + max_if_no_unmappables(rest));         *)
(* the encode_from_utf8_to_vec loop (last = true) that accumulates         *)
(* had_errors and, on OutputFull, grows the Vec with reserve_exact to      *)
(*   next_power_of_two(capacity + max_if_no_unmappables(remaining)).       *)
(* The streaming encoder underneath is Layer I's (ImplEncoder with a UTF-8 *)
(* source).  The text is a sequence of scalar values.                      *)
(***************************************************************************)
EXTENDS ImplEncoder

RECURSIVE EPow2From(_, _)
EPow2From(p, n) == IF p >= n THEN p ELSE EPow2From(2 * p, n)
ENextPow2(n) == EPow2From(1, n)

\* number of leading scalars that the prefix scan accepts (each is one byte)
AsciiPrefix(out, items) ==
  LET bad == {j \in 1..Len(items) : items[j] >= 128 \/ (out = "ISO-2022-JP" /\ items[j] \in {14, 15, 27})}
  IN  IF bad = {} THEN Len(items) ELSE (CHOOSE j \in bad : \A q \in bad : j <= q) - 1

OERes(bytes, had, borrowed, panic, allocs) == [bytes |-> bytes, had |-> had, borrowed |-> borrowed, panic |-> panic, allocs |-> allocs]

RECURSIVE OSEncLoop(_, _, _, _, _, _, _, _)
OSEncLoop(out, st, items, vec, cap, had, allocs, fuel) ==
  IF fuel = 0 THEN OERes(vec, had, FALSE, TRUE, allocs)
  ELSE
  LET S == SrcScalars("utf8", ScalarsToUtf8(items)).s
      r == Encode(out, st, S, cap - Len(vec), TRUE, TRUE)                  \* encode_from_utf8_to_vec(.., last = true)
  IN  IF r.res = "P" THEN OERes(vec, had, FALSE, TRUE, allocs)
      ELSE
      LET vec1 == vec \o r.out
          had1 == had \/ r.had
          nItems == UnitsToCount(S, r.read, 1, 0)
          rest == SubSeq(items, nItems + 1, Len(items))
      IN  IF r.res = "I" THEN OERes(vec1, had1, FALSE, FALSE, allocs)
          ELSE LET needed == EncoderMax(out, Len(ScalarsToUtf8(rest)), TRUE)
               IN  OSEncLoop(out, r.st, rest, vec1, ENextPow2(cap + needed), had1, allocs + 1, fuel - 1)

OneShotEncode(enc, items) ==
  LET out == OutputEncoding(enc) IN
  IF out = "UTF-8" THEN OERes(ScalarsToUtf8(items), FALSE, TRUE, FALSE, 0) @@ [used |-> out]
  ELSE
  LET k == AsciiPrefix(out, items) IN
  IF k = Len(items) THEN OERes(items, FALSE, TRUE, FALSE, 0) @@ [used |-> out]
  ELSE LET rest == SubSeq(items, k + 1, Len(items))
           cap0 == ENextPow2(k + EncoderMax(out, Len(ScalarsToUtf8(rest)), TRUE))
       IN  OSEncLoop(out, EncInit, rest, SubSeq(items, 1, k), cap0, FALSE, 1, 2 * Len(items) + 8) @@ [used |-> out]
=============================================================================
