------------------------------ MODULE TraceEnc ------------------------------
(***************************************************************************)
(* Trace validation of encoder histories recorded from the real code.      *)
(* Every argument and result of every call is logged, so the search is     *)
(* linear: one state per trace line.  The run is accepted iff the whole    *)
(* trace was consumed (diameter postcondition) and viol is empty in the    *)
(* end-of-trace state (reported by the AtEnd invariant, because TLC's      *)
(* POSTCONDITION cannot read state variables).                             *)
(***************************************************************************)
EXTENDS EncoderMonitor, TLCExt

Rec == ndJsonDeserialize(IOEnv.TRACE)

VARIABLES l, m
vars == <<l, m>>

TraceInit == l = 1 /\ m = EMonInit
TraceNext == l <= Len(Rec) /\ l' = l + 1 /\ m' = EMonStep(m, Rec[l])
TraceSpec == TraceInit /\ [][TraceNext]_vars

AtEnd == l = Len(Rec) + 1 =>
           PrintT(<<"VERIF-RESULT", ToJson([viol |-> m.viol, histories |-> m.ctr.nh, judged |-> m.ctr.njudged,
                                             events |-> Len(Rec)])>>)
TraceAccepted ==
  \/ TLCGet("stats").diameter = Len(Rec) + 1
  \/ Print(<<"VERIF-UNMATCHED", TLCGet("stats").diameter>>, FALSE)
=============================================================================
