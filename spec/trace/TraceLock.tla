------------------------------ MODULE TraceLock ------------------------------
(* Trace validation of lockstep observation vectors (C17). *)
EXTENDS Lockstep, Json, IOUtils, TLCExt

Rec == ndJsonDeserialize(IOEnv.TRACE)

VARIABLES l, m
vars == <<l, m>>

TraceInit == l = 1 /\ m = ZInit
TraceNext == l <= Len(Rec) /\ l' = l + 1 /\ m' = ZStep(m, Rec[l])
TraceSpec == TraceInit /\ [][TraceNext]_vars

AtEnd == l = Len(Rec) + 1 =>
           PrintT(<<"VERIF-RESULT", ToJson([viol |-> m.viol, histories |-> m.n, judged |-> m.judged, events |-> Len(Rec)])>>)
TraceAccepted ==
  \/ TLCGet("stats").diameter = Len(Rec) + 1
  \/ Print(<<"VERIF-UNMATCHED", TLCGet("stats").diameter>>, FALSE)
=============================================================================
