----------------------------- MODULE MemMonitor -----------------------------
(***************************************************************************)
(* Layer C monitor for encoding_rs::mem and the Encoding validators.       *)
(* Event "M": [h, fn, in (recipe), dl (destination length, -1 if none),    *)
(*   r (result tuple as a sequence of integers; booleans as 0/1; None as   *)
(*   <<-1>>), out (destination prefix reported as written), beyond (the    *)
(*   destination beyond `written` still holds the pre-fill), post (whole   *)
(*   destination, logged for the str-receiving functions only), borrowed,  *)
(*   panic, alt (distinct results obtained at the other 15 start           *)
(*   alignments: must be empty)].                                          *)
(* Event "MR": ranges of scalars / code units for which a predicate is     *)
(*   true (exhaustive aggregate).                                          *)
(***************************************************************************)
EXTENDS MemDefs, FiniteSets

YInit == [viol |-> <<>>, n |-> 0, judged |-> 0]
YMaxPerTag == 12
YAdd(m, h, tags) ==
  LET fresh == SelectSeq(tags, LAMBDA t : Len(SelectSeq(m.viol, LAMBDA v : v.tag = t)) < YMaxPerTag)
  IN  [m EXCEPT !.viol = @ \o [j \in 1..Len(fresh) |-> [tag |-> fresh[j], h |-> h, k |-> 0]]]
YTags(pairs) == LET s == SelectSeq(pairs, LAMBDA p : p[1]) IN [j \in 1..Len(s) |-> s[j][2]]

B(x) == IF x THEN 1 ELSE 0

\* expected [r, out, exact] for function fn on input `inp` with destination length dl;
\* out = expected written prefix; ck = property tag prefix
Expected(fn, inp, dl) ==
  CASE fn = "utf8_valid_up_to" -> [r |-> <<Utf8ValidUpTo(inp)>>, out |-> <<>>, ck |-> "C14"]
    [] fn = "ascii_valid_up_to" -> [r |-> <<AsciiValidUpTo(inp)>>, out |-> <<>>, ck |-> "C14"]
    [] fn = "iso_2022_jp_ascii_valid_up_to" -> [r |-> <<Iso2022JpAsciiValidUpTo(inp)>>, out |-> <<>>, ck |-> "C14"]
    [] fn = "utf16_valid_up_to" -> [r |-> <<Utf16ValidUpTo(inp)>>, out |-> <<>>, ck |-> "C14"]
    [] fn = "utf8_latin1_up_to" -> [r |-> <<Utf8Latin1UpTo(inp)>>, out |-> <<>>, ck |-> "C14"]
    [] fn = "str_latin1_up_to" -> [r |-> <<Utf8Latin1UpTo(inp)>>, out |-> <<>>, ck |-> "C14"]
    [] fn = "is_ascii" -> [r |-> <<B(IsAscii(inp))>>, out |-> <<>>, ck |-> "C16"]
    [] fn = "is_basic_latin" -> [r |-> <<B(IsBasicLatin(inp))>>, out |-> <<>>, ck |-> "C16"]
    [] fn = "is_utf8_latin1" -> [r |-> <<B(IsUtf8Latin1(inp))>>, out |-> <<>>, ck |-> "C16"]
    [] fn = "is_str_latin1" -> [r |-> <<B(IsUtf8Latin1(inp))>>, out |-> <<>>, ck |-> "C16"]
    [] fn = "is_utf16_latin1" -> [r |-> <<B(IsUtf16Latin1(inp))>>, out |-> <<>>, ck |-> "C16"]
    [] fn = "is_utf8_bidi" -> [r |-> <<B(IsUtf8Bidi(inp))>>, out |-> <<>>, ck |-> "C16"]
    [] fn = "is_str_bidi" -> [r |-> <<B(IsUtf8Bidi(inp))>>, out |-> <<>>, ck |-> "C16"]
    [] fn = "is_utf16_bidi" -> [r |-> <<B(IsUtf16Bidi(inp))>>, out |-> <<>>, ck |-> "C16"]
    [] fn = "check_utf8_for_latin1_and_bidi" -> [r |-> <<Latin1BidiOf(IsUtf8Latin1(inp), IsUtf8Bidi(inp))>>, out |-> <<>>, ck |-> "C16"]
    [] fn = "check_str_for_latin1_and_bidi" -> [r |-> <<Latin1BidiOf(IsUtf8Latin1(inp), IsUtf8Bidi(inp))>>, out |-> <<>>, ck |-> "C16"]
    [] fn = "check_utf16_for_latin1_and_bidi" -> [r |-> <<Latin1BidiOf(IsUtf16Latin1(inp), IsUtf16Bidi(inp))>>, out |-> <<>>, ck |-> "C16"]
    [] fn \in {"convert_utf8_to_utf16", "convert_str_to_utf16"} ->
         LET o == Utf8ToUtf16Lossy(inp) IN [r |-> <<Len(o)>>, out |-> o, ck |-> "C15"]
    [] fn = "convert_utf8_to_utf16_without_replacement" ->
         IF Utf8WellFormed(inp) THEN (LET o == Utf8ToUtf16Lossy(inp) IN [r |-> <<Len(o)>>, out |-> o, ck |-> "C15"])
         ELSE [r |-> <<-1>>, out |-> <<>>, ck |-> "C15"]
    [] fn \in {"convert_utf16_to_utf8_partial", "convert_utf16_to_str_partial"} ->
         LET p == Utf16ToUtf8Partial(inp, dl)
         IN  [r |-> <<p.read, p.written>>, out |-> Utf16ToUtf8Lossy(SubSeq(inp, 1, p.read)), ck |-> "C15"]
    [] fn \in {"convert_utf16_to_utf8", "convert_utf16_to_str"} ->
         LET o == Utf16ToUtf8Lossy(inp) IN [r |-> <<Len(o)>>, out |-> o, ck |-> "C15"]
    [] fn = "convert_latin1_to_utf16" -> [r |-> <<>>, out |-> inp, ck |-> "C15"]
    [] fn \in {"convert_latin1_to_utf8_partial", "convert_latin1_to_str_partial"} ->
         LET p == Latin1ToUtf8Partial(inp, dl)
         IN  [r |-> <<p.read, p.written>>, out |-> Latin1ToUtf8(SubSeq(inp, 1, p.read)), ck |-> "C15"]
    [] fn \in {"convert_latin1_to_utf8", "convert_latin1_to_str", "decode_latin1"} ->
         LET o == Latin1ToUtf8(inp) IN [r |-> <<Len(o)>>, out |-> o, ck |-> "C15"]
    [] fn \in {"convert_utf8_to_latin1_lossy", "encode_latin1_lossy"} ->
         LET o == Utf8ToScalars(inp).cps IN [r |-> <<Len(o)>>, out |-> o, ck |-> "C15"]
    [] fn = "convert_utf16_to_latin1_lossy" -> [r |-> <<>>, out |-> inp, ck |-> "C15"]
    [] fn = "ensure_utf16_validity" -> [r |-> <<>>, out |-> EnsureUtf16Validity(inp), ck |-> "C15"]
    [] fn = "copy_ascii_to_ascii" -> (LET n == AsciiValidUpTo(inp) IN [r |-> <<n>>, out |-> SubSeq(inp, 1, n), ck |-> "C15"])
    [] fn = "copy_ascii_to_basic_latin" -> (LET n == AsciiValidUpTo(inp) IN [r |-> <<n>>, out |-> SubSeq(inp, 1, n), ck |-> "C15"])
    [] fn = "copy_basic_latin_to_ascii" ->
         (LET n == FirstIndex(inp, 1, LAMBDA u : u >= 128) IN [r |-> <<n>>, out |-> SubSeq(inp, 1, n), ck |-> "C15"])

\* functions whose documentation guarantees that the destination beyond `written` is left unmodified
KeepsBeyond == {"convert_utf16_to_utf8_partial"}
\* functions receiving &mut str: the whole destination must stay valid UTF-8
StrFns == {"convert_utf16_to_str_partial", "convert_utf16_to_str", "convert_latin1_to_str_partial", "convert_latin1_to_str"}
\* borrow promised when the input is ASCII-only
CowFns == {"decode_latin1", "encode_latin1_lossy"}

MonMem(m, ev) ==
  LET inp == Expand(ev.in)
      x == Expected(ev.fn, inp, ev.dl)
      ck == x.ck
      tags == YTags(<<
        <<ev.panic, ck \o ".panic">>,
        <<~ev.panic /\ ev.r # x.r, ck \o ".result">>,
        <<~ev.panic /\ ev.out # x.out, ck \o ".output">>,
        <<~ev.panic /\ ev.alt # <<>>, ck \o ".alignment-dependent">>,
        <<ev.fillalt # 0, "C18.mem-fill-dependent">>,
        <<~ev.panic /\ ev.fn \in KeepsBeyond /\ ~ev.beyond, "C15.modified-beyond-written">>,
        <<~ev.panic /\ ev.fn \in StrFns /\ ~Utf8WellFormed(ev.post), "C05.mem-str-invalid">>,
        <<~ev.panic /\ ev.fn \in CowFns /\ IsAscii(inp) /\ ~ev.borrowed, "C15.borrow-ascii">>,
        <<~ev.panic /\ ~ev.guard, "C06.mem-guard">>
        >>)
  IN  [YAdd(m, ev.h, tags) EXCEPT !.n = @ + 1, !.judged = @ + 1]

\* MR: the exact set of values (as inclusive ranges) for which a per-character predicate answered TRUE
RangesSet(rs) == UNION {rs[j][1]..rs[j][2] : j \in 1..Len(rs)}
MonMemRanges(m, ev) ==
  LET S == RangesSet(ev.ranges)
      dom == ev.lo..ev.hi
      bad == IF ev.fn = "is_char_bidi" THEN \E c \in dom : (c \in S) # (IsScalar(c) /\ IsCharBidi(c))
             ELSE \E u \in dom : (u \in S) # IsUtf16CodeUnitBidi(u)
  IN  [YAdd(m, ev.h, YTags(<< <<bad, "C16.per-character">> >>)) EXCEPT !.n = @ + 1, !.judged = @ + (ev.hi - ev.lo + 1)]

YStep(m, ev) ==
  CASE ev.ev = "M" -> MonMem(m, ev)
    [] ev.ev = "MR" -> MonMemRanges(m, ev)
    [] OTHER -> YAdd(m, 0, <<"proto.unknown-event">>)
=============================================================================
