------------------------------ MODULE Lockstep ------------------------------
(***************************************************************************)
(* N observers executing the same deterministic case; each reports a       *)
(* digest of its complete observation record (arguments, return values,    *)
(* destination prefix reported as written).  The invariant is that all     *)
(* observations of a case are equal (C17: observers = build configurations *)
(* of the crate; the same harness, seed and corpus is linked against each  *)
(* build).                                                                 *)
(***************************************************************************)
EXTENDS Integers, Sequences, TLC

ZInit == [viol |-> <<>>, n |-> 0, judged |-> 0]
ZMaxPerTag == 20
ZAdd(m, h, tags) ==
  LET fresh == SelectSeq(tags, LAMBDA t : Len(SelectSeq(m.viol, LAMBDA v : v.tag = t)) < ZMaxPerTag)
  IN  [m EXCEPT !.viol = @ \o [j \in 1..Len(fresh) |-> [tag |-> fresh[j], h |-> h, k |-> 0]]]

AllEqual(obs) == \A i \in 1..Len(obs) : obs[i] = obs[1]

ZStep(m, ev) ==
  IF ev.ev = "LK"
  THEN [ZAdd(m, ev.h, IF AllEqual(ev.obs) THEN <<>> ELSE <<"C17.configuration-dependent">>)
         EXCEPT !.n = @ + 1, !.judged = @ + Len(ev.obs)]
  ELSE ZAdd(m, 0, <<"proto.unknown-event">>)
=============================================================================
