---------------------------- MODULE DecoderMonitor ----------------------------
(***************************************************************************)
(* Layer C: contract-level monitor of the streaming Decoder API.           *)
(*                                                                         *)
(* The monitor consumes call events (from the real code via ndjson traces, *)
(* or from the implementation-shaped model inside TLC) and keeps:          *)
(*   w     the Standard's BOM wrapper + decoder after all bytes PRESENTED  *)
(*         so far (high-water mark), EOQ included once `last` was raised   *)
(*   wc    the same after exactly the bytes CONSUMED so far                *)
(*   avail the lag queue: items the Standard has determined from the       *)
(*         presented bytes that the implementation has not yet emitted;    *)
(*         error items carry their span end relative to the consumed       *)
(*         position                                                        *)
(*   lag   number of items determined by the consumed bytes and not yet    *)
(*         emitted (deferred output)                                       *)
(*   pend  bytes presented and not yet consumed                            *)
(* It does not predict how much a call consumes or when OutputFull is      *)
(* returned; it demands only what the documentation demands.  Every failed *)
(* conjunct appends a tagged record to viol; after a failed prefix rule    *)
(* the history is desynchronised and skipped up to the next "N" event.     *)
(***************************************************************************)
EXTENDS Unicode

BomUtf8 == <<239, 187, 191>>
BomBe == <<254, 255>>
BomLe == <<255, 254>>
AllCands == << [name |-> "UTF-8", bom |-> BomUtf8], [name |-> "UTF-16BE", bom |-> BomBe],
               [name |-> "UTF-16LE", bom |-> BomLe] >>
Cands(cfg) ==
  IF cfg.mode = "sniff" THEN AllCands
  ELSE IF cfg.mode = "remove" THEN SelectSeq(AllCands, LAMBDA c : c.name = cfg.enc)
  ELSE <<>>

IsPrefixOf(a, b) == Len(a) <= Len(b) /\ SubSeq(b, 1, Len(a)) = a

WInit(cfg) ==
  IF Cands(cfg) = <<>>
  THEN [held |-> <<>>, decided |-> TRUE, used |-> cfg.enc, bomlen |-> 0, ss |-> InitStream(cfg.enc), n |-> 0]
  ELSE [held |-> <<>>, decided |-> FALSE, used |-> cfg.enc, bomlen |-> 0, ss |-> InitStream(cfg.enc), n |-> 0]

\* BOM decision for the held prefix; endpos = position just after the last held byte.
\* n counts the items produced so far (used for the lag counter).
Decide(cfg, w, held, final, endpos) ==
  LET cs == Cands(cfg)
      hit == SelectSeq(cs, LAMBDA c : c.bom = held)
      partial == SelectSeq(cs, LAMBDA c : IsPrefixOf(held, c.bom))
  IN  IF hit # <<>> THEN
        [w |-> [held |-> <<>>, decided |-> TRUE, used |-> hit[1].name, bomlen |-> Len(held),
                ss |-> InitStream(hit[1].name), n |-> w.n],
         items |-> <<>>]
      ELSE IF final \/ partial = <<>> THEN
        LET f == Feed(cfg.enc, InitStream(cfg.enc), held, endpos - Len(held))
        IN  [w |-> [held |-> <<>>, decided |-> TRUE, used |-> cfg.enc, bomlen |-> 0, ss |-> f.ss,
                    n |-> w.n + Len(f.items)],
             items |-> f.items]
      ELSE [w |-> [w EXCEPT !.held = held], items |-> <<>>]

RECURSIVE WFeedR(_, _, _, _, _)
WFeedR(cfg, w, q, pos, items) ==
  IF q = <<>> THEN [w |-> w, items |-> items]
  ELSE IF w.decided THEN
    LET f == Feed(w.used, w.ss, q, pos)
    IN  [w |-> [w EXCEPT !.ss = f.ss, !.n = @ + Len(f.items)], items |-> items \o f.items]
  ELSE LET d == Decide(cfg, w, Append(w.held, Head(q)), FALSE, pos + 1)
       IN  WFeedR(cfg, d.w, Tail(q), pos + 1, items \o d.items)

\* feed bytes (first one at position pos) through the BOM wrapper
WFeed(cfg, w, bytes, pos) == WFeedR(cfg, w, bytes, pos, <<>>)

\* end of stream at position pos
WEof(cfg, w, pos) ==
  LET d == IF w.decided THEN [w |-> w, items |-> <<>>] ELSE Decide(cfg, w, w.held, TRUE, pos)
      e == Eof(d.w.used, d.w.ss, pos)
  IN  [w |-> [d.w EXCEPT !.ss = e.ss, !.n = @ + Len(e.items)], items |-> d.items \o e.items]

\* whole-stream reference: [used, bomlen, items]
DecodeWithBom(cfg, bytes) ==
  LET f == WFeed(cfg, WInit(cfg), bytes, 0)
      e == WEof(cfg, f.w, Len(bytes))
  IN  [used |-> e.w.used, bomlen |-> e.w.bomlen, items |-> f.items \o e.items]

---------------------------------------------------------------------------
SinkUtf8(sink) == sink # "utf16"
MinCap(sink) == IF SinkUtf8(sink) THEN 4 ELSE 2

NoCfg == [enc |-> "UTF-8", mode |-> "off", sink |-> "utf8", repl |-> FALSE, bound |-> FALSE]

MonFresh(cfg, viol, ctr) ==
  [cfg |-> cfg, w |-> WInit(cfg), wc |-> WInit(cfg), avail |-> <<>>, lag |-> 0, pend |-> <<>>,
   eos |-> FALSE, done |-> FALSE, desync |-> FALSE, viol |-> viol, ctr |-> ctr]

ZeroCtr == [h |-> 0, k |-> 0, calls |-> 0, total |-> 0, nh |-> 0, njudged |-> 0]

MonInit == [MonFresh(NoCfg, <<>>, ZeroCtr) EXCEPT !.desync = TRUE]

\* at most MaxPerTag records per tag are kept per trace file (one defect repeats in many histories)
MaxPerTag == 12
AddViols(m, tags) ==
  LET fresh == SelectSeq(tags, LAMBDA t : Len(SelectSeq(m.viol, LAMBDA v : v.tag = t)) < MaxPerTag)
  IN  [m EXCEPT !.viol = @ \o [i \in 1..Len(fresh) |-> [tag |-> fresh[i], h |-> m.ctr.h, k |-> m.ctr.k]]]

\* keep the tags whose condition (violation present) is TRUE
Tags(pairs) == LET s == SelectSeq(pairs, LAMBDA p : p[1]) IN [i \in 1..Len(s) |-> s[i][2]]

MonNew(m, ev) ==
  MonFresh([enc |-> ev.enc, mode |-> ev.mode, sink |-> ev.sink, repl |-> ev.repl, bound |-> ev.bound],
           m.viol, [ZeroCtr EXCEPT !.h = ev.h, !.nh = m.ctr.nh + 1, !.njudged = m.ctr.njudged])

ShiftItems(items, d) == [i \in 1..Len(items) |-> IF items[i].k = "e" THEN [items[i] EXCEPT !.b = @ - d] ELSE items[i]]

Obs(ev) == [res |-> ev.res, ml |-> ev.ml, ma |-> ev.ma, read |-> ev.read, written |-> ev.written, out |-> ev.out]

\* conjuncts that depend on the event alone; they are also reported when the event is rejected by an earlier rule
\* (a wrong byte inside the written prefix that is a stale byte of the destination is both C02.prefix and C18)
IndepTags(ev) == Tags(<< <<\E i \in 1..Len(ev.alt) : ev.alt[i] # Obs(ev), "C18.fill-dependent">>, <<~ev.guard, "C06.guard">> >>)

MonDecode(m0, ev) ==
  LET m == [m0 EXCEPT !.ctr.k = @ + 1, !.ctr.calls = @ + 1] IN
  IF m.desync THEN m
  ELSE IF ev.res = "P" THEN
    \* a panic is data: allowed only when the history reused a finished decoder or offered less than the
    \* documented minimum output space
    LET strBad == m.cfg.sink \in {"str", "string"} /\ ~Utf8WellFormed(ev.post)
        tags == Tags(<< <<~m.done /\ ev.cap >= MinCap(m.cfg.sink), "C06.panic">>, <<strBad, "C05.str-after-panic">> >>)
    IN  [AddViols(m, tags) EXCEPT !.desync = TRUE]
  ELSE IF m.done THEN [m EXCEPT !.desync = TRUE]
  ELSE
  LET cfg == m.cfg
      src == ev.src
      cap == ev.cap
      last == ev.last
      k0 == Min(Len(src), Len(m.pend))
      repushOK == SubSeq(src, 1, k0) = SubSeq(m.pend, 1, k0)
      lastOK == ~last \/ Len(src) >= Len(m.pend)
  IN
  IF ~repushOK \/ ~lastOK THEN [AddViols(m, <<"proto.driver">>) EXCEPT !.desync = TRUE]
  ELSE IF ev.read > Len(src) \/ ev.written > cap \/ ev.written # Len(ev.out) THEN
       [AddViols(m, <<"C06.bounds">> \o IndepTags(ev)) EXCEPT !.desync = TRUE]
  ELSE
  LET newb == IF Len(src) > Len(m.pend) THEN SubSeq(src, Len(m.pend) + 1, Len(src)) ELSE <<>>
      f1 == WFeed(cfg, m.w, newb, Len(m.pend))
      pend1 == m.pend \o newb
      f2 == IF last /\ ~m.eos THEN WEof(cfg, f1.w, Len(pend1)) ELSE [w |-> f1.w, items |-> <<>>]
      avail1 == m.avail \o f1.items \o f2.items
      dec == IF SinkUtf8(cfg.sink) THEN Utf8ToScalars(ev.out) ELSE Utf16ToScalars(ev.out)
      emitted == [i \in 1..Len(dec.cps) |-> ItemC(dec.cps[i])]
                   \o (IF ev.res = "M" THEN <<ItemE(ev.ml, ev.read - ev.ma)>> ELSE <<>>)
      n == Len(emitted)
      Match(e, a) == e = a \/ (cfg.repl /\ a.k = "e" /\ e = ItemC(65533))
      prefixOK == n <= Len(avail1) /\ \A i \in 1..n : Match(emitted[i], avail1[i])
  IN
  IF ~dec.ok THEN [AddViols(m, <<"C05.illformed">> \o IndepTags(ev)) EXCEPT !.desync = TRUE]
  ELSE IF ~prefixOK THEN
       [AddViols(m, <<IF cfg.mode # "off" /\ m.ctr.total + ev.read <= 3 /\ ~m.wc.decided
                      THEN "C10.prefix" ELSE "C02.prefix">> \o IndepTags(ev)) EXCEPT !.desync = TRUE]
  ELSE
  LET popped == SubSeq(avail1, 1, n)
      rest == SubSeq(avail1, n + 1, Len(avail1))
      hadErr == \E i \in 1..n : popped[i].k = "e"
      fc == WFeed(cfg, m.wc, SubSeq(pend1, 1, ev.read), 0)
      finished == ev.res = "I" /\ last
      wc1 == IF finished THEN WEof(cfg, fc.w, 0).w ELSE fc.w
      lag1 == m.lag + (wc1.n - m.wc.n) - n
      encExpected == IF wc1.decided THEN wc1.used ELSE cfg.enc
      total1 == m.ctr.total + ev.read
      malRangeBad == ev.res = "M" /\ ~(ev.ml >= 1 /\ ev.ml <= 4 /\ ev.ma >= 0 /\ ev.ma <= 3 /\ ev.ml + ev.ma <= 6)
      strSink == cfg.sink = "str"
      stringSink == cfg.sink = "string"
      tags == Tags(<<
        <<malRangeBad, "C01.malformed-range">>,
        <<ev.res = "M" /\ cfg.repl, "C09.malformed-with-replacement">>,
        <<cfg.repl /\ hadErr # ev.had, "C09.had-errors">>,
        \* the twin decoder driven by the documented manual procedure on the same (src, capacity, last): the caller's loop over
        \* the without-replacement method, one U+FFFD appended per Malformed result, the rest re-pushed
        <<"man" \in DOMAIN ev /\ ev.man # [res |-> ev.res, read |-> ev.read, written |-> ev.written, had |-> ev.had, out |-> ev.out],
          "C09.manual-differs">>,
        <<ev.res = "I" /\ ev.read # Len(src), "C06.inputempty-unconsumed">>,
        <<finished /\ rest # <<>>, "C02.lost">>,
        <<ev.enc # encExpected, "C10.encoding">>,
        <<ev.res = "O" /\ cap >= MinCap(cfg.sink) /\ ev.read = 0 /\ ev.written = 0 /\ n = 0, "C08.noprogress">>,
        <<finished /\ cfg.bound /\ m.ctr.calls > 4 * total1 + 16, "C08.call-bound">>,
        <<ev.q /\ ev.res = "O", "C07.insufficient">>,
        <<\E i \in 1..Len(ev.alt) : ev.alt[i] # Obs(ev), "C18.fill-dependent">>,
        <<strSink /\ ~Utf8WellFormed(ev.post), "C05.str-invalid">>,
        <<strSink /\ SubSeq(ev.post, 1, ev.written) # ev.out, "harness.str-out">>,
        <<stringSink /\ ~Utf8WellFormed(ev.post), "C05.string-invalid">>,
        <<stringSink /\ ev.post # ev.pre \o ev.out, "C06.string-content">>,
        <<stringSink /\ ~ev.same, "C06.string-realloc">>,
        <<~ev.guard, "C06.guard">>
        >>)
  IN  [AddViols(m, tags) EXCEPT
         !.w = f2.w, !.wc = wc1, !.avail = ShiftItems(rest, ev.read), !.lag = lag1,
         !.pend = SubSeq(pend1, ev.read + 1, Len(pend1)),
         !.eos = m.eos \/ last, !.done = finished,
         !.desync = finished /\ rest # <<>>,
         !.ctr.total = total1, !.ctr.njudged = @ + 1]

(***************************************************************************)
(* C19: Decoder::latin1_byte_compatible_up_to(bytes) = ret (-1 = None),    *)
(* asked between calls.  Judged against wc (the Standard's state at the    *)
(* consumed position) and the lag counter.                                 *)
(***************************************************************************)
NeverCompat == {"UTF-16BE", "UTF-16LE", "replacement"}

\* longest prefix of bytes that the decoder `enc` in state ss decodes to the identical scalar values
RECURSIVE IdentityRun(_, _, _, _)
IdentityRun(enc, ss, bytes, i) ==
  IF i > Len(bytes) THEN Len(bytes)
  ELSE LET r == StepTok(enc, ss, bytes[i], 0)
       IN  IF r.items = <<ItemC(bytes[i])>> /\ r.restore = <<>> THEN IdentityRun(enc, r.ss, bytes, i + 1)
           ELSE i - 1

RECURSIVE AsciiRun(_, _, _)
AsciiRun(enc, bytes, i) ==
  IF i > Len(bytes) THEN Len(bytes)
  ELSE IF bytes[i] < 128 /\ ~(enc = "ISO-2022-JP" /\ IsoBad(bytes[i])) THEN AsciiRun(enc, bytes, i + 1)
  ELSE i - 1

MonLatin1(m, ev) ==
  IF m.desync \/ m.done THEN m
  ELSE IF ev.ret = -2 THEN [AddViols(m, <<"C06.panic">>) EXCEPT !.desync = TRUE]
  ELSE IF m.lag < 0 THEN
    \* The implementation has looked ahead: it has already emitted -lag items that the Standard only produces
    \* from bytes beyond the consumed position (error reported with the offending byte un-read, a withheld BOM
    \* byte replayed).  wc is then not its state, so no "must be None / must be Some" judgement; but a claim
    \* Some(n) with n > 0 is still checked against what the decoder is bound to emit next: the lag queue
    \* (determined by the presented bytes, which the query's bytes repeat) followed by the Standard's items for
    \* the bytes beyond them - the first n of these must be exactly the first n byte values.
    (IF ev.ret <= 0 \/ ev.ret > Len(ev.bytes) THEN m
     ELSE LET k0 == Min(Len(m.pend), Len(ev.bytes)) IN
       IF SubSeq(ev.bytes, 1, k0) # SubSeq(m.pend, 1, k0) THEN m      \* not a query about the upcoming input
       ELSE LET extra == IF ev.ret > Len(m.pend)
                         THEN WFeed(m.cfg, m.w, SubSeq(ev.bytes, Len(m.pend) + 1, ev.ret), 0).items ELSE <<>>
                up == m.avail \o extra
            IN  IF Len(up) >= ev.ret /\ \A j \in 1..ev.ret : up[j] = ItemC(ev.bytes[j]) THEN m
                ELSE AddViols(m, <<"C19.not-identity">>))
  ELSE
  LET wc == m.wc
      enc == wc.used
      ret == ev.ret
      neutral == wc.decided /\ Neutral(enc, wc.ss) /\ ~wc.ss.fin
      mustNone == ~wc.decided \/ enc \in NeverCompat \/ ~neutral
      ident == IdentityRun(enc, wc.ss, ev.bytes, 1)
      tags == Tags(<<
        <<mustNone /\ ret # -1, "C19.some-when-not-compatible">>,
        <<ret # -1 /\ (ret > Len(ev.bytes) \/ ret < 0), "C19.range">>,
        <<ret # -1 /\ ~mustNone /\ (m.lag # 0 \/ ret > ident), "C19.not-identity">>,
        <<~mustNone /\ m.lag = 0 /\ ret = -1, "C19.none-when-compatible">>,
        <<~mustNone /\ m.lag = 0 /\ ret # -1 /\ ret < AsciiRun(enc, ev.bytes, 1), "C19.stops-short-in-ascii">>,
        <<~mustNone /\ m.lag = 0 /\ ret # -1 /\ Family(enc) = "sb" /\ ret # ident, "C19.single-byte-inexact">>
        >>)
  IN  AddViols(m, tags)

MonStep(m, ev) ==
  CASE ev.ev = "N" -> MonNew(m, ev)
    [] ev.ev = "D" -> MonDecode(m, ev)
    [] ev.ev = "L" -> MonLatin1(m, ev)
    \* the harness gave up after 8 * units + 64 calls of the documented loop: judged even when the history is
    \* already desynchronised (non-termination is a fact about the real code, whatever else went wrong before)
    [] ev.ev = "F" -> [AddViols(m, <<"C08.livelock">>) EXCEPT !.desync = TRUE]
    \* guard-page fault: the process died with a signal inside this history (access beyond a caller buffer)
    [] ev.ev = "G" -> [AddViols(m, <<"C06.fault">>) EXCEPT !.desync = TRUE]
    [] OTHER -> AddViols(m, <<"proto.unknown-event">>)
=============================================================================
