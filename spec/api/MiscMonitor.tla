----------------------------- MODULE MiscMonitor -----------------------------
(***************************************************************************)
(* Layer C monitors for the non-streaming API:                             *)
(*   LL / LS  label resolution (C13)                                       *)
(*   OD / OE  one-shot decode / encode (C11)                               *)
(*   MD / MQ  encoding metadata (C20)                                      *)
(*   BM       Encoding::for_bom (C10)                                      *)
(* Each event is judged on its own; the monitor state is only the          *)
(* violation list and counters.                                            *)
(***************************************************************************)
EXTENDS Labels, DecoderMonitor, FiniteSets

XInit == [viol |-> <<>>, n |-> 0, judged |-> 0]

XMaxPerTag == 12
XAdd(m, h, tags) ==
  LET fresh == SelectSeq(tags, LAMBDA t : Len(SelectSeq(m.viol, LAMBDA v : v.tag = t)) < XMaxPerTag)
  IN  [m EXCEPT !.viol = @ \o [j \in 1..Len(fresh) |-> [tag |-> fresh[j], h |-> h, k |-> 0]]]

XTags(pairs) == LET s == SelectSeq(pairs, LAMBDA p : p[1]) IN [j \in 1..Len(s) |-> s[j][2]]

NoRepl(e) == IF e = "replacement" THEN "" ELSE e

(****************************** labels (C13) *******************************)
\* LL: individually judged strings; ret / retnr = "" for None, "!" for a panic
LabelItemBad(it) == LET e == GetEncoding(it.b) IN it.r # e \/ it.n # NoRepl(e)

MonLabelList(m, ev) ==
  LET bad == \E j \in 1..Len(ev.items) : LabelItemBad(ev.items[j])
  IN  [XAdd(m, ev.h, XTags(<< <<bad, "C13.label">> >>)) EXCEPT !.n = @ + 1, !.judged = @ + Len(ev.items)]

\* LS: the single-edit neighbourhood of a base string, by set equality with the list of hits
Nbhd(base) ==
  LET L == Len(base) IN
    {[base EXCEPT ![i] = c] : i \in 1..L, c \in 0..255}
    \cup {SubSeq(base, 1, i) \o <<c>> \o SubSeq(base, i + 1, L) : i \in 0..L, c \in 0..255}
    \cup {SubSeq(base, 1, i - 1) \o SubSeq(base, i + 1, L) : i \in 1..L}

MonLabelSweep(m, ev) ==
  LET L == Len(ev.base)
      nb == Nbhd(ev.base)
      hitDom == {ev.hits[j].b : j \in 1..Len(ev.hits)}
      HitOf(s) == ev.hits[CHOOSE j \in 1..Len(ev.hits) : ev.hits[j].b = s]
      wrong == \E s \in nb : LET e == GetEncoding(s) IN
                 IF e = "" THEN s \in hitDom
                 ELSE ~(s \in hitDom /\ HitOf(s).r = e /\ HitOf(s).n = NoRepl(e))
      stray == \E s \in hitDom : s \notin nb
      casesBad == ev.cases # 256 * L + 256 * (L + 1) + L
  IN  [XAdd(m, ev.h, XTags(<< <<wrong, "C13.neighbourhood">>, <<stray, "C13.stray-hit">>, <<casesBad, "C13.cases">>,
                             <<ev.odd # 0, "C13.no-replacement-differs">> >>))
        EXCEPT !.n = @ + 1, !.judged = @ + ev.cases]

(**************************** one-shot API (C11) ***************************)
AsciiCompatibleName(enc) == enc \notin {"UTF-16BE", "UTF-16LE", "ISO-2022-JP", "replacement"}

ApiMode(api) == IF api = "decode" THEN "sniff" ELSE IF api = "decode_with_bom_removal" THEN "remove" ELSE "off"

ItemsText(items) == [j \in 1..Len(items) |-> IF items[j].k = "c" THEN items[j].a ELSE 65533]
ItemsHadError(items) == \E j \in 1..Len(items) : items[j].k = "e"

\* OD: input = run x 'a' followed by tail; out = the output after the echoed run
MonOneShotDecode(m, ev) ==
  LET cfg == [enc |-> ev.enc, mode |-> ApiMode(ev.api), sink |-> "utf8", repl |-> TRUE, bound |-> FALSE]
      \* an ASCII run in front rules out a BOM and leaves an ASCII-compatible / ISO-2022-JP / UTF-8 decoder neutral
      ref == IF ev.run > 0 THEN [used |-> ev.enc, bomlen |-> 0, items |-> Run(ev.enc, ev.tail)]
             ELSE DecodeWithBom(cfg, ev.tail)
      had == ItemsHadError(ref.items)
      text == ScalarsToUtf8(ItemsText(ref.items))
      noRepl == ev.api = "decode_without_bom_handling_and_without_replacement"
      rest == SubSeq(ev.tail, ref.bomlen + 1, Len(ev.tail))
      allAscii == \A j \in 1..Len(rest) : rest[j] < 128
      isoAscii == \A j \in 1..Len(rest) : rest[j] < 128 /\ ~IsoBad(rest[j])
      promised == \/ (ref.used = "UTF-8" /\ ~had)
                  \/ (AsciiCompatibleName(ref.used) /\ allAscii)
                  \/ (ref.used = "ISO-2022-JP" /\ isoAscii)
      runOK == ev.run = 0 \/ (AsciiCompatibleName(ev.enc) \/ ev.enc = "ISO-2022-JP")
      tags == XTags(<<
        <<~runOK, "harness.run-lemma">>,
        <<ev.panic, "C11.panic">>,
        <<~ev.panic /\ noRepl /\ ev.none # had, "C11.none-iff-malformed">>,
        <<~ev.panic /\ ~ev.none /\ (ev.out # text \/ ~ev.echo), "C11.text">>,
        <<~ev.panic /\ ~noRepl /\ ev.had # had, "C11.had-errors">>,
        <<~ev.panic /\ ~noRepl /\ ev.api # "decode_without_bom_handling" /\ ev.used # ref.used, "C11.encoding-used">>,
        <<~ev.panic /\ ~ev.none /\ promised /\ ~ev.borrowed, "C11.borrow-promised">>,
        <<~ev.panic /\ ev.borrowed /\ ~ev.aliases, "C11.borrow-aliases">>,
        <<~ev.panic /\ ~ev.none /\ ev.stream # "" /\ ev.stream # "same", "C11.streaming-differs">>
        >>)
  IN  [XAdd(m, ev.h, tags) EXCEPT !.n = @ + 1, !.judged = @ + 1]

\* OE: text = run x 'a' followed by the scalars `tail`
MonOneShotEncode(m, ev) ==
  LET out == OutputEncoding(ev.enc)
      atoms == EncRun(out, ev.tail)
      bytes == AtomBytes(WithNcr(atoms))
      had == \E j \in 1..Len(atoms) : atoms[j].k = "u"
      allAscii == \A j \in 1..Len(ev.tail) : ev.tail[j] < 128
      promised == out = "UTF-8" \/ (AsciiCompatibleName(out) /\ allAscii)
      tags == XTags(<<
        <<ev.panic, "C11.enc-panic">>,
        <<~ev.panic /\ (ev.out # bytes \/ ~ev.echo), "C11.enc-bytes">>,
        <<~ev.panic /\ ev.had # had, "C11.enc-had-unmappables">>,
        <<~ev.panic /\ ev.used # out, "C11.enc-encoding-used">>,
        <<~ev.panic /\ promised /\ ~ev.borrowed, "C11.enc-borrow-promised">>,
        <<~ev.panic /\ ev.borrowed /\ ~ev.aliases, "C11.enc-borrow-aliases">>,
        <<~ev.panic /\ ev.stream # "" /\ ev.stream # "same", "C11.enc-streaming-differs">>
        >>)
  IN  [XAdd(m, ev.h, tags) EXCEPT !.n = @ + 1, !.judged = @ + 1]

(***************************** for_bom (C10) *******************************)
MonForBom(m, ev) ==
  LET hit == SelectSeq(AllCands, LAMBDA c : IsPrefixOf(c.bom, ev.bytes))
      expName == IF hit = <<>> THEN "" ELSE hit[1].name
      expLen == IF hit = <<>> THEN 0 ELSE Len(hit[1].bom)
  IN  [XAdd(m, ev.h, XTags(<< <<ev.name # expName \/ ev.len # expLen, "C10.for-bom">> >>)) EXCEPT !.n = @ + 1, !.judged = @ + 1]

(***************************** metadata (C20) ******************************)
\* truth computed from Layer S
AsciiCompatTruth(enc) ==
  /\ \A b \in 0..127 : Run(enc, <<b>>) = <<ItemC(b)>>
  /\ \A b \in 0..127 : AtomBytes(EncRun(OutputEncoding(enc), <<b>>)) = <<b>> /\ OutputEncoding(enc) = enc

Utf16LenOfItems(items) ==
  LET t == ItemsText(items) IN Len(ScalarsToUtf16(t))

\* every 1- and 2-byte string (and the ISO-2022-JP escapes) decodes, with replacement, to as many UTF-16 units as bytes
SingleByteDecodeTruth(enc) ==
  /\ \A a \in 0..255 : Utf16LenOfItems(Run(enc, <<a>>)) = 1
  /\ \A a \in 128..255 : \A b \in {0, 65, 128, 161, 255} : Utf16LenOfItems(Run(enc, <<a, b>>)) = 2
  /\ Utf16LenOfItems(Run(enc, <<27, 36, 66>>)) = 3

CanEncodeEverythingTruth(enc) ==
  LET out == OutputEncoding(enc) IN
  IF Family(out) = "utf8" THEN TRUE
  ELSE ~(\E cp \in {128, 58853, 65535, 1114111} : \E j \in 1..Len(EncRun(out, <<cp>>)) : EncRun(out, <<cp>>)[j].k = "u")

MonMeta(m, ev) ==
  LET enc == ev.name
      sbTruth == SingleByteDecodeTruth(enc)
      tags == XTags(<<
        <<ev.ascii # AsciiCompatTruth(enc), "C20.is-ascii-compatible">>,
        <<ev.single # sbTruth, "C20.is-single-byte">>,
        <<ev.single # (Family(enc) \in {"sb", "userdef"}), "C20.is-single-byte-list">>,
        <<ev.everything # CanEncodeEverythingTruth(enc), "C20.can-encode-everything">>,
        <<ev.output # OutputEncoding(enc), "C20.output-encoding">>,
        <<ev.outout # ev.output, "C20.output-encoding-idempotent">>,
        <<ev.encoder # ev.output, "C20.new-encoder-encoding">>,
        <<\E j \in 1..Len(ev.encodeUsed) : ev.encodeUsed[j] # OutputEncoding(enc), "C20.encode-reports-encoding">>,
        <<ev.label # enc, "C20.name-resolves-to-self">>,
        <<\E j \in 1..Len(ev.eq) : ev.eq[j] # (j = ev.index), "C20.equality">>,
        <<\E j \in 1..Len(ev.hasheq) : ev.hasheq[j] # (j = ev.index), "C20.hash">>,
        \* facts the harness measured on the same build over the exhaustive space must agree with the flags
        <<ev.single # ev.factSingle, "C20.single-byte-vs-sweep">>,
        <<ev.ascii # ev.factAscii, "C20.ascii-vs-sweep">>,
        <<ev.everything # ev.factEverything, "C20.everything-vs-sweep">>
        >>)
  IN  [XAdd(m, ev.h, tags) EXCEPT !.n = @ + 1, !.judged = @ + 1]

(******************* C07 overflow clause: queries near usize::MAX ***********)
\* 64-bit naturals as four base-65536 limbs, least significant first (TLC integers are 32-bit); <<>> = None
U64Leq(a, b) ==      \* a <= b
  \/ a[4] < b[4]
  \/ (a[4] = b[4] /\ a[3] < b[3])
  \/ (a[4] = b[4] /\ a[3] = b[3] /\ a[2] < b[2])
  \/ (a[4] = b[4] /\ a[3] = b[3] /\ a[2] = b[2] /\ a[1] <= b[1])
U64Half(a) ==        \* floor(a / 2)
  << (a[1] \div 2) + (a[2] % 2) * 32768, (a[2] \div 2) + (a[3] % 2) * 32768, (a[3] \div 2) + (a[4] % 2) * 32768, a[4] \div 2 >>
TwoPow61 == <<0, 0, 0, 8192>>

\* a value every correct answer must reach: the conversion of n units can need at least this many output units
QueryLowerBound(ev) ==
  IF ev.side = "dec" THEN
    (IF ev.used = "replacement" THEN <<0, 0, 0, 0>>
     ELSE IF ev.used \in Utf16Names THEN U64Half(ev.n)
     ELSE ev.n)
  ELSE (IF ev.q \in {"u16", "u16if"} THEN ev.n ELSE U64Half(ev.n))

MonQueryOverflow(m, ev) ==
  LET tags == XTags(<<
        <<ev.panic, "C07.query-panic">>,
        \* every formula is at most 4n + 16: for n <= 2^61 the result fits and None is a wrong answer
        <<~ev.panic /\ ev.ret = <<>> /\ U64Leq(ev.n, TwoPow61), "C07.none-without-overflow">>,
        \* a wrapped number is small: Some(v) must reach the lower bound
        <<~ev.panic /\ ev.ret # <<>> /\ ~U64Leq(QueryLowerBound(ev), ev.ret), "C07.wrapped-or-too-small">>
        >>)
  IN  [XAdd(m, ev.h, tags) EXCEPT !.n = @ + 1, !.judged = @ + 1]

XStep(m, ev) ==
  CASE ev.ev = "LL" -> MonLabelList(m, ev)
    [] ev.ev = "LS" -> MonLabelSweep(m, ev)
    [] ev.ev = "OD" -> MonOneShotDecode(m, ev)
    [] ev.ev = "OE" -> MonOneShotEncode(m, ev)
    [] ev.ev = "BM" -> MonForBom(m, ev)
    [] ev.ev = "MD" -> MonMeta(m, ev)
    [] ev.ev = "QO" -> MonQueryOverflow(m, ev)
    [] OTHER -> XAdd(m, 0, <<"proto.unknown-event">>)
=============================================================================
