---------------------------- MODULE EncoderMonitor ----------------------------
(***************************************************************************)
(* Layer C: contract-level monitor of the streaming Encoder API.           *)
(*                                                                         *)
(* State: se = the Standard encoder's state after all scalars PRESENTED so *)
(* far; avail = atoms determined from the presented scalars and not yet    *)
(* emitted, each tagged with the index (relative to the consumed position) *)
(* of the scalar that caused it; pend = scalars presented and not yet      *)
(* consumed (with their unit lengths); ist = ISO-2022-JP state implied by  *)
(* the bytes emitted so far; rd = the Standard DECODER of the same         *)
(* encoding fed with the bytes emitted so far (C12).                       *)
(*                                                                         *)
(* The rule is two-sided: everything caused by consumed scalars must have  *)
(* been emitted, what is emitted must be a prefix of what the presented    *)
(* scalars determine, and only an escape sequence may be emitted ahead of  *)
(* the scalar that caused it.                                              *)
(***************************************************************************)
EXTENDS StdEncoders, FiniteSets

SP(cp, ul) == [cp |-> cp, ul |-> ul]

RECURSIVE Utf16Pairs(_, _, _)
Utf16Pairs(units, i, acc) ==
  IF i > Len(units) THEN acc
  ELSE LET u == units[i] IN
    IF IsHigh(u) /\ i < Len(units) /\ IsLow(units[i + 1])
    THEN Utf16Pairs(units, i + 2, Append(acc, SP(65536 + (u - 55296) * 1024 + (units[i + 1] - 56320), 2)))
    ELSE IF IsSurrogate(u) THEN Utf16Pairs(units, i + 1, Append(acc, SP(65533, 1)))
    ELSE Utf16Pairs(units, i + 1, Append(acc, SP(u, 1)))

\* scalars of a source buffer with their unit lengths; ok = FALSE for ill-formed UTF-8 (a harness bug)
SrcScalars(source, units) ==
  IF source = "utf16" THEN [ok |-> TRUE, s |-> Utf16Pairs(units, 1, <<>>)]
  ELSE LET d == Utf8ToScalars(units)
       IN  [ok |-> d.ok, s |-> [j \in 1..Len(d.cps) |-> SP(d.cps[j], Utf8Len(d.cps[j]))]]

RECURSIVE UnitsToCount(_, _, _, _)
\* number of whole scalars covered by `read` units, -1 if read falls inside a scalar
UnitsToCount(s, read, j, acc) ==
  IF acc = read THEN j - 1
  ELSE IF j > Len(s) \/ acc > read THEN -1
  ELSE UnitsToCount(s, read, j + 1, acc + s[j].ul)

EncMinCap(repl) == IF repl THEN 14 ELSE 4

NoECfg == [enc |-> "UTF-8", out |-> "UTF-8", source |-> "utf8", sink |-> "slice", repl |-> FALSE, bound |-> FALSE]

EZeroCtr == [h |-> 0, k |-> 0, calls |-> 0, total |-> 0, nh |-> 0, njudged |-> 0]

EMonFresh(cfg, viol, ctr) ==
  [cfg |-> cfg, se |-> EncInit, avail |-> <<>>, pend |-> <<>>, eos |-> FALSE, done |-> FALSE, desync |-> FALSE,
   ist |-> "ascii", rd |-> InitStream(cfg.out), hadU |-> FALSE, mahead |-> <<>>, viol |-> viol, ctr |-> ctr]

EMonInit == [EMonFresh(NoECfg, <<>>, EZeroCtr) EXCEPT !.desync = TRUE]

EIsPrefix(a, b) == Len(a) <= Len(b) /\ SubSeq(b, 1, Len(a)) = a

EMaxPerTag == 12
EAddViols(m, tags) ==
  LET fresh == SelectSeq(tags, LAMBDA t : Len(SelectSeq(m.viol, LAMBDA v : v.tag = t)) < EMaxPerTag)
  IN  [m EXCEPT !.viol = @ \o [j \in 1..Len(fresh) |-> [tag |-> fresh[j], h |-> m.ctr.h, k |-> m.ctr.k]]]

ETags(pairs) == LET s == SelectSeq(pairs, LAMBDA p : p[1]) IN [j \in 1..Len(s) |-> s[j][2]]

EMonNew(m, ev) ==
  EMonFresh([enc |-> ev.enc, out |-> OutputEncoding(ev.enc), source |-> ev.source, sink |-> ev.sink, repl |-> ev.repl,
             bound |-> ev.bound],
            m.viol, [EZeroCtr EXCEPT !.h = ev.h, !.nh = m.ctr.nh + 1, !.njudged = m.ctr.njudged])

RECURSIVE PopAtoms(_, _, _)
\* number of leading atoms of avail whose bytes concatenate to exactly `bytes`; -1 if impossible
PopAtoms(avail, bytes, n) ==
  IF bytes = <<>> THEN n
  ELSE IF n >= Len(avail) THEN -1
  ELSE LET a == avail[n + 1] IN
    IF a.k # "u" /\ Len(a.v) <= Len(bytes) /\ SubSeq(bytes, 1, Len(a.v)) = a.v
    THEN PopAtoms(avail, SubSeq(bytes, Len(a.v) + 1, Len(bytes)), n + 1)
    ELSE -1

IstAfter(ist, atoms) ==
  LET xs == SelectSeq(atoms, LAMBDA a : a.k = "x") IN
  IF xs = <<>> THEN ist
  ELSE LET v == xs[Len(xs)].v IN
    IF v = EscAscii THEN "ascii" ELSE IF v = EscRoman THEN "roman" ELSE "jis0208"

\* what decoding the atom's bytes must give back (C12 round trip)
ExpectedDecode(out, pendAll, a) ==
  IF a.k = "x" \/ a.k = "u" THEN <<>>
  ELSE IF a.k = "n" THEN [j \in 1..Len(a.v) |-> ItemC(a.v[j])]
  ELSE <<ItemC(FoldOf(out, pendAll[a.i + 1].cp))>>

EObs(ev) == [res |-> ev.res, um |-> ev.um, read |-> ev.read, written |-> ev.written, out |-> ev.out]

\* conjuncts that depend on the event alone; they are also reported when the event is rejected by an earlier rule
EIndepTags(ev) == ETags(<< <<\E j \in 1..Len(ev.alt) : ev.alt[j] # EObs(ev), "C18.enc-fill-dependent">>, <<~ev.guard, "C06.enc-guard">> >>)

EMonEncode(m0, ev) ==
  LET m == [m0 EXCEPT !.ctr.k = @ + 1, !.ctr.calls = @ + 1] IN
  IF m.desync THEN m
  ELSE IF ev.res = "P" THEN
    [EAddViols(m, IF ev.cap >= EncMinCap(m.cfg.repl) THEN <<"C06.enc-panic">> ELSE <<>>) EXCEPT !.desync = TRUE]
  ELSE IF m.done THEN [m EXCEPT !.desync = TRUE]
  ELSE
  LET cfg == m.cfg
      ss == SrcScalars(cfg.source, ev.src)
      S == ss.s
      k0 == Min(Len(S), Len(m.pend))
      repushOK == ss.ok /\ SubSeq(S, 1, k0) = SubSeq(m.pend, 1, k0) /\ (~ev.last \/ Len(S) >= Len(m.pend))
  IN
  IF ~repushOK THEN [EAddViols(m, <<"proto.driver">>) EXCEPT !.desync = TRUE]
  ELSE IF ev.read > Len(ev.src) \/ ev.written > ev.cap \/ ev.written # Len(ev.out) THEN
       [EAddViols(m, <<"C06.enc-bounds">> \o EIndepTags(ev)) EXCEPT !.desync = TRUE]
  ELSE
  LET newS == IF Len(S) > Len(m.pend) THEN SubSeq(S, Len(m.pend) + 1, Len(S)) ELSE <<>>
      pend1 == m.pend \o newS
      f1 == EncFeed(cfg.out, m.se, [j \in 1..Len(newS) |-> newS[j].cp], Len(m.pend))
      f2 == IF ev.last /\ ~m.eos THEN EncEof(cfg.out, f1.st, Len(pend1)) ELSE [st |-> f1.st, atoms |-> <<>>]
      newAtoms == f1.atoms \o f2.atoms
      avail1 == m.avail \o (IF cfg.repl THEN WithNcr(newAtoms) ELSE newAtoms)
      r == UnitsToCount(pend1, ev.read, 1, 0)
      nb == PopAtoms(avail1, ev.out, 0)
  IN
  IF r < 0 THEN [EAddViols(m, <<"C04.split-character">> \o EIndepTags(ev)) EXCEPT !.desync = TRUE]
  ELSE IF nb < 0 THEN
       \* the bytes are not what the Standard's encoder writes.  When this single call is the whole stream, the round trip of
       \* C12 can still be judged without the atom alignment: the complete output must decode to what the Standard's complete
       \* output decodes to (no error, same text)
       LET wholeStream == m.ctr.calls = 1 /\ ev.last /\ ev.res = "I"
           rtBad == wholeStream /\ Run(cfg.out, ev.out) # Run(cfg.out, AtomBytes(avail1))
       IN  [EAddViols(m, <<"C04.prefix">> \o (IF rtBad THEN <<"C12.roundtrip">> ELSE <<>>) \o EIndepTags(ev)) EXCEPT !.desync = TRUE]
  ELSE
  LET umOK == ev.res # "U" \/ (nb < Len(avail1) /\ avail1[nb + 1].k = "u" /\ avail1[nb + 1].v = <<ev.um>>)
      n == IF ev.res = "U" THEN nb + 1 ELSE nb
  IN
  IF ~umOK THEN [EAddViols(m, <<"C04.unmappable">> \o EIndepTags(ev)) EXCEPT !.desync = TRUE]
  ELSE
  LET popped == SubSeq(avail1, 1, n)
      rest == SubSeq(avail1, n + 1, Len(avail1))
      finished == ev.res = "I" /\ ev.last
      lostOutput == \E j \in 1..Len(rest) : rest[j].i < r
      aheadBad == \E j \in 1..n : popped[j].i >= r /\ ~(popped[j].k = "x" /\ popped[j].i = r)
      hadNcr == \E j \in 1..n : popped[j].k = "n"
      ist1 == IstAfter(m.ist, popped)
      df == Feed(cfg.out, m.rd, ev.out, 0)
      de == IF finished THEN Eof(cfg.out, df.ss, 0) ELSE [ss |-> df.ss, items |-> <<>>]
      decItems == df.items \o de.items
      expDec == FlattenSeq([j \in 1..n |-> ExpectedDecode(cfg.out, pend1, popped[j])])
      srcAtomsUnmappable == \E j \in 1..Len(avail1) : avail1[j].i < Len(S) /\ avail1[j].k \in {"u", "n"}
      total1 == m.ctr.total + ev.read
      vecSink == cfg.sink = "vec"
      hasMan == "man" \in DOMAIN ev
      mainAhead == m.mahead \o ev.out
      tags == ETags(<<
        <<lostOutput, "C04.lost-output">>,
        <<aheadBad, "C04.output-ahead-of-input">>,
        <<finished /\ rest # <<>>, "C04.lost">>,
        <<ev.res = "U" /\ cfg.repl, "C09.unmappable-with-replacement">>,
        <<cfg.repl /\ hadNcr # ev.had, "C09.had-unmappables">>,
        \* the twin encoder driven by the documented manual procedure on the units this call consumed: the caller's loop over the
        \* without-replacement method with an ample buffer, "&#" decimal ";" appended per Unmappable result
        \* (m.mahead = the bytes by which this encoder's output is ahead of the procedure's - an ISO-2022-JP escape can be
        \* written by a call that reports OutputFull before consuming the character): the procedure's output must continue to be
        \* a prefix, equal at the end of the stream, and its substitutions must be in the same calls
        <<hasMan /\ (ev.man.res # "I" \/ ev.man.had # ev.had \/ ~EIsPrefix(ev.man.out, mainAhead) \/ (finished /\ ev.man.out # mainAhead)),
          "C09.enc-manual-differs">>,
        <<ev.res = "I" /\ ev.read # Len(ev.src), "C06.enc-inputempty-unconsumed">>,
        <<ev.pending # (cfg.out = "ISO-2022-JP" /\ ist1 # "ascii"), "C12.pending-state">>,
        <<finished /\ ist1 # "ascii", "C12.not-ascii-at-end">>,
        \* after an Unmappable result without replacement the caller decides what to write: no decode claim
        <<~m.hadU /\ \E j \in 1..Len(decItems) : decItems[j].k = "e", "C12.undecodable">>,
        <<~m.hadU /\ decItems # expDec, "C12.roundtrip">>,
        <<ev.res = "O" /\ ev.cap >= EncMinCap(cfg.repl) /\ ev.read = 0 /\ ev.written = 0, "C08.enc-noprogress">>,
        <<finished /\ cfg.bound /\ m.ctr.calls > 4 * total1 + 16, "C08.enc-call-bound">>,
        <<ev.q /\ ev.res = "O" /\ ~srcAtomsUnmappable, "C07.enc-insufficient">>,
        <<\E j \in 1..Len(ev.alt) : ev.alt[j] # EObs(ev), "C18.enc-fill-dependent">>,
        <<vecSink /\ ev.post # ev.pre \o ev.out, "C06.vec-content">>,
        <<vecSink /\ ~ev.same, "C06.vec-realloc">>,
        <<~ev.guard, "C06.enc-guard">>
        >>)
  IN  [EAddViols(m, tags) EXCEPT
         !.se = f2.st, !.avail = [j \in 1..Len(rest) |-> [rest[j] EXCEPT !.i = @ - r]],
         !.pend = SubSeq(pend1, r + 1, Len(pend1)),
         !.eos = m.eos \/ ev.last, !.done = finished, !.ist = ist1, !.rd = de.ss, !.hadU = m.hadU \/ ev.res = "U",
         !.desync = lostOutput \/ (finished /\ rest # <<>>),
         !.mahead = IF hasMan /\ EIsPrefix(ev.man.out, mainAhead) THEN SubSeq(mainAhead, Len(ev.man.out) + 1, Len(mainAhead)) ELSE <<>>,
         !.ctr.total = total1, !.ctr.njudged = @ + 1]

(***************************************************************************)
(* C03 aggregate: "ES" event = every scalar of a range alone through one   *)
(* encoder (whole stream, last = TRUE).  mapped = <<cp, b1, ..>> for every *)
(* scalar that was encoded; odd = scalars answered in any other shape than *)
(* "mapped" or "Unmappable(that scalar)".  The spec computes the expected  *)
(* answer for every scalar of the range and demands set equality.          *)
(***************************************************************************)
SingleExpected(out, cp) ==
  LET atoms == EncRun(out, <<cp>>)
      us == SelectSeq(atoms, LAMBDA a : a.k = "u")
  IN  IF us = <<>> THEN [m |-> TRUE, um |-> 0, bytes |-> AtomBytes(atoms)]
      ELSE [m |-> FALSE, um |-> us[1].v[1], bytes |-> AtomBytes(atoms)]

SweepScalars(ev) == {cp \in ev.lo..(ev.hi - 1) : ~IsSurrogate(cp) /\ (cp - ev.lo) % ev.stride = ev.off % ev.stride}

EMonSweep(m0, ev) ==
  LET m == [m0 EXCEPT !.ctr.h = ev.h, !.ctr.k = 0, !.ctr.nh = @ + 1, !.ctr.njudged = @ + ev.cases, !.desync = TRUE]
      out == OutputEncoding(ev.enc)
      dom == SweepScalars(ev)
      mappedSet == {ev.mapped[j][1] : j \in 1..Len(ev.mapped)}
      oddSet == {ev.odd[j] : j \in 1..Len(ev.odd)}
      entryBad == \E j \in 1..Len(ev.mapped) :
                    LET e == ev.mapped[j]
                        x == SingleExpected(out, e[1])
                    IN  ~(e[1] \in dom /\ x.m /\ x.bytes = Tail(e))
      missing == \E cp \in dom : LET x == SingleExpected(out, cp) IN
                    \/ (x.m /\ cp \notin mappedSet)
                    \/ (~x.m /\ x.um = cp /\ (cp \in mappedSet \/ cp \in oddSet))
                    \/ (~x.m /\ x.um # cp /\ cp \notin oddSet)
      oddBad == \E cp \in oddSet : cp \notin dom \/ (LET x == SingleExpected(out, cp) IN x.m \/ x.um = cp)
      tags == ETags(<< <<entryBad, "C03.sweep-entry">>, <<missing, "C03.sweep-missing">>, <<oddBad, "C03.sweep-odd">>,
                       <<ev.cases # Cardinality(dom), "C03.sweep-cases">> >>)
  IN  EAddViols(m, tags)

EMonStep(m, ev) ==
  CASE ev.ev = "NE" -> EMonNew(m, ev)
    [] ev.ev = "E" -> EMonEncode(m, ev)
    [] ev.ev = "ES" -> EMonSweep(m, ev)
    [] ev.ev = "F" -> [EAddViols(m, <<"C08.enc-livelock">>) EXCEPT !.desync = TRUE]
    [] ev.ev = "G" -> [EAddViols(m, <<"C06.fault">>) EXCEPT !.desync = TRUE]
    [] OTHER -> EAddViols(m, <<"proto.unknown-event">>)
=============================================================================
