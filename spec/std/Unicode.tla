------------------------------- MODULE Unicode -------------------------------
(***************************************************************************)
(* Scalar values, UTF-8 and UTF-16 as the Unicode Standard defines them.   *)
(* UTF-8 decoding reuses the Standard's UTF-8 decoder (StdDecoders!Utf8H), *)
(* whose "one error per maximal subpart" behaviour is the definition used  *)
(* by the lossy conversions.                                               *)
(***************************************************************************)
EXTENDS StdDecoders

IsSurrogate(u) == u >= 55296 /\ u <= 57343
IsHigh(u) == u >= 55296 /\ u <= 56319
IsLow(u) == u >= 56320 /\ u <= 57343
IsScalar(c) == c >= 0 /\ c <= 1114111 /\ ~IsSurrogate(c)

Utf8Encode(cp) ==
  IF cp < 128 THEN <<cp>>
  ELSE IF cp < 2048 THEN <<192 + (cp \div 64), 128 + (cp % 64)>>
  ELSE IF cp < 65536 THEN <<224 + (cp \div 4096), 128 + ((cp \div 64) % 64), 128 + (cp % 64)>>
  ELSE <<240 + (cp \div 262144), 128 + ((cp \div 4096) % 64), 128 + ((cp \div 64) % 64), 128 + (cp % 64)>>

Utf8Len(cp) == IF cp < 128 THEN 1 ELSE IF cp < 2048 THEN 2 ELSE IF cp < 65536 THEN 3 ELSE 4

Utf16Encode(cp) ==
  IF cp < 65536 THEN <<cp>>
  ELSE <<55296 + ((cp - 65536) \div 1024), 56320 + ((cp - 65536) % 1024)>>

Utf16Len(cp) == IF cp < 65536 THEN 1 ELSE 2

\* item sequence of the UTF-8 decoder over bytes (chars and error spans, positions from 0)
Utf8Items(bytes) == Run("UTF-8", bytes)

\* [ok |-> well-formed, cps |-> scalar values (U+FFFD per error when not ok)]
Utf8ToScalars(bytes) ==
  LET it == Utf8Items(bytes)
  IN  [ok |-> \A i \in 1..Len(it) : it[i].k = "c",
       cps |-> [i \in 1..Len(it) |-> IF it[i].k = "c" THEN it[i].a ELSE 65533]]

Utf8WellFormed(bytes) == Utf8ToScalars(bytes).ok

\* length of the longest well-formed prefix
Utf8ValidUpTo(bytes) ==
  LET it == Utf8Items(bytes)
      errs == {i \in 1..Len(it) : it[i].k = "e"}
  IN  IF errs = {} THEN Len(bytes)
      ELSE LET i == CHOOSE i \in errs : \A j \in errs : i <= j IN it[i].b - it[i].a

RECURSIVE Utf16Scan(_, _, _, _)
\* acc = [ok, cps]; strict: an unpaired surrogate makes ok FALSE and yields U+FFFD
Utf16Scan(units, i, ok, cps) ==
  IF i > Len(units) THEN [ok |-> ok, cps |-> cps]
  ELSE LET u == units[i] IN
    IF IsHigh(u) /\ i < Len(units) /\ IsLow(units[i + 1])
    THEN Utf16Scan(units, i + 2, ok, Append(cps, 65536 + (u - 55296) * 1024 + (units[i + 1] - 56320)))
    ELSE IF IsSurrogate(u) THEN Utf16Scan(units, i + 1, FALSE, Append(cps, 65533))
    ELSE Utf16Scan(units, i + 1, ok, Append(cps, u))

Utf16ToScalars(units) == Utf16Scan(units, 1, TRUE, <<>>)
Utf16WellFormed(units) == Utf16ToScalars(units).ok

RECURSIVE Utf16ValidFrom(_, _)
Utf16ValidFrom(units, i) ==
  IF i > Len(units) THEN Len(units)
  ELSE LET u == units[i] IN
    IF IsHigh(u) /\ i < Len(units) /\ IsLow(units[i + 1]) THEN Utf16ValidFrom(units, i + 2)
    ELSE IF IsSurrogate(u) THEN i - 1
    ELSE Utf16ValidFrom(units, i + 1)
Utf16ValidUpTo(units) == Utf16ValidFrom(units, 1)

RECURSIVE FlattenSeq(_)
FlattenSeq(ss) == IF ss = <<>> THEN <<>> ELSE Head(ss) \o FlattenSeq(Tail(ss))

ScalarsToUtf8(cps) == FlattenSeq([i \in 1..Len(cps) |-> Utf8Encode(cps[i])])
ScalarsToUtf16(cps) == FlattenSeq([i \in 1..Len(cps) |-> Utf16Encode(cps[i])])

Min(a, b) == IF a < b THEN a ELSE b
Max(a, b) == IF a > b THEN a ELSE b
=============================================================================
