------------------------------- MODULE MemDefs -------------------------------
(***************************************************************************)
(* Layer S: definitional semantics of encoding_rs::mem and of the          *)
(* validators of Encoding (C14, C15, C16), in terms of Unicode.tla.        *)
(***************************************************************************)
EXTENDS Unicode

(************************** inputs as recipes ******************************)
\* A recipe [kind, fill, len, patch] denotes a buffer: the fill pattern repeated to length len with the
\* patched positions (0-based) overridden.  Harness and spec expand it by the same rule.
Pattern8(k) ==
  CASE k = 1 -> <<97>>
    [] k = 2 -> <<195, 169>>
    [] k = 3 -> <<226, 130, 172>>
    [] k = 4 -> <<240, 159, 146, 169>>
    [] k = 5 -> <<195, 191, 97>>
    [] k = 6 -> <<194, 128>>
    [] k = 7 -> <<215, 144, 32>>                \* U+05D0 (right-to-left) and a space
    \* character widths 1 1 2 1 3 1 4 2 2 3 2 4 3 3 4 4: cyclically every ordered pair of widths is adjacent once
    [] k = 8 -> <<97, 97, 195, 169, 97, 226, 130, 172, 97, 240, 159, 146, 169, 195, 169, 195, 169, 226, 130, 172, 195, 169,
                  240, 159, 146, 169, 226, 130, 172, 226, 130, 172, 240, 159, 146, 169, 240, 159, 146, 169>>
    [] OTHER -> <<65>>
Pattern16(k) ==
  CASE k = 1 -> <<97>>
    [] k = 2 -> <<233>>
    [] k = 3 -> <<8364>>
    [] k = 4 -> <<55357, 56489>>
    [] k = 5 -> <<255, 97>>
    [] k = 6 -> <<128>>
    [] k = 7 -> <<1488, 32>>
    [] k = 8 -> <<97, 97, 233, 97, 8364, 97, 55357, 56489, 233, 233, 8364, 233, 55357, 56489, 8364, 8364, 55357, 56489, 55357, 56489>>
    [] OTHER -> <<65>>

Expand(r) ==
  LET pat == IF r.kind = "u16" THEN Pattern16(r.fill) ELSE Pattern8(r.fill)
      PatchAt(i) == SelectSeq(r.patch, LAMBDA p : p[1] = i)
  IN  [i \in 1..r.len |-> IF PatchAt(i - 1) # <<>> THEN PatchAt(i - 1)[1][2] ELSE pat[((i - 1) % Len(pat)) + 1]]

(****************************** validators *********************************)
\* index (0-based) of the first element (from position i on) satisfying Bad, or Len
FirstIndex(s, i, Bad(_)) ==
  LET bad == {j \in i..Len(s) : Bad(s[j])}
  IN  IF bad = {} THEN Len(s) ELSE (CHOOSE j \in bad : \A q \in bad : j <= q) - 1

AsciiValidUpTo(bytes) == FirstIndex(bytes, 1, LAMBDA b : b >= 128)
Iso2022JpAsciiValidUpTo(bytes) == FirstIndex(bytes, 1, LAMBDA b : b >= 128 \/ b = 14 \/ b = 15 \/ b = 27)

\* items of the UTF-8 decoder with their start positions
RECURSIVE ItemStarts(_, _, _, _)
ItemStarts(items, j, pos, acc) ==
  IF j > Len(items) THEN acc
  ELSE LET it == items[j]
           len == IF it.k = "c" THEN Utf8Len(it.a) ELSE it.a
       IN  ItemStarts(items, j + 1, pos + len, Append(acc, pos))

Utf8Latin1UpTo(bytes) ==
  LET it == Utf8Items(bytes)
      st == ItemStarts(it, 1, 0, <<>>)
      bad == {j \in 1..Len(it) : it[j].k = "e" \/ it[j].a > 255}
  IN  IF bad = {} THEN Len(bytes) ELSE st[CHOOSE j \in bad : \A q \in bad : j <= q]

(**************************** classification *******************************)
IsAscii(bytes) == \A i \in 1..Len(bytes) : bytes[i] < 128
IsBasicLatin(units) == \A i \in 1..Len(units) : units[i] < 128
IsUtf8Latin1(bytes) == LET d == Utf8ToScalars(bytes) IN d.ok /\ \A i \in 1..Len(d.cps) : d.cps[i] <= 255
IsUtf16Latin1(units) == \A i \in 1..Len(units) : units[i] <= 255

\* the documented right-to-left block list
IsCharBidi(c) ==
  \/ InR(c, 1424, 2303)        \* 0590..08FF
  \/ InR(c, 64285, 65023)      \* FB1D..FDFF
  \/ InR(c, 65136, 65278)      \* FE70..FEFE
  \/ InR(c, 67584, 69631)      \* 10800..10FFF
  \/ InR(c, 124928, 126975)    \* 1E800..1EFFF
  \/ c = 8207 \/ c = 8235 \/ c = 8238 \/ c = 8295    \* 200F 202B 202E 2067

IsUtf16CodeUnitBidi(u) ==
  \/ (u < 55296 /\ IsCharBidi(u)) \/ (u >= 57344 /\ IsCharBidi(u))
  \/ u = 55298 \/ u = 55299 \/ u = 55354 \/ u = 55355          \* D802 D803 D83A D83B

IsUtf8Bidi(bytes) == LET d == Utf8ToScalars(bytes) IN ~d.ok \/ \E i \in 1..Len(d.cps) : IsCharBidi(d.cps[i])
IsUtf16Bidi(units) == \E i \in 1..Len(units) : IsUtf16CodeUnitBidi(units[i])

\* 0 = Latin1, 1 = LeftToRight, 2 = Bidi
Latin1BidiOf(isLatin1, isBidi) == IF isLatin1 THEN 0 ELSE IF isBidi THEN 2 ELSE 1

(****************************** conversions ********************************)
Utf8ToUtf16Lossy(bytes) == ScalarsToUtf16(Utf8ToScalars(bytes).cps)
Utf16ToUtf8Lossy(units) == ScalarsToUtf8(Utf16ToScalars(units).cps)
Latin1ToUtf8(bytes) == ScalarsToUtf8(bytes)

\* scalars (lossy) of a UTF-16 buffer with their unit lengths: [cp, ul]
RECURSIVE Utf16ScalarsUL(_, _, _)
Utf16ScalarsUL(units, i, acc) ==
  IF i > Len(units) THEN acc
  ELSE LET u == units[i] IN
    IF IsHigh(u) /\ i < Len(units) /\ IsLow(units[i + 1])
    THEN Utf16ScalarsUL(units, i + 2, Append(acc, [cp |-> 65536 + (u - 55296) * 1024 + (units[i + 1] - 56320), ul |-> 2]))
    ELSE IF IsSurrogate(u) THEN Utf16ScalarsUL(units, i + 1, Append(acc, [cp |-> 65533, ul |-> 1]))
    ELSE Utf16ScalarsUL(units, i + 1, Append(acc, [cp |-> u, ul |-> 1]))

RECURSIVE TakeFit(_, _, _, _, _)
\* greedy: as many whole scalars as fit into cap bytes of UTF-8; returns [read (source units), written]
TakeFit(s, j, cap, read, written) ==
  IF j > Len(s) THEN [read |-> read, written |-> written]
  ELSE LET n == Utf8Len(s[j].cp) IN
    IF written + n > cap THEN [read |-> read, written |-> written]
    ELSE TakeFit(s, j + 1, cap, read + s[j].ul, written + n)

Utf16ToUtf8Partial(units, cap) == TakeFit(Utf16ScalarsUL(units, 1, <<>>), 1, cap, 0, 0)
Latin1ToUtf8Partial(bytes, cap) == TakeFit([i \in 1..Len(bytes) |-> [cp |-> bytes[i], ul |-> 1]], 1, cap, 0, 0)

EnsureUtf16Validity(units) == ScalarsToUtf16(Utf16ToScalars(units).cps)
=============================================================================
