------------------------------- MODULE Labels -------------------------------
(***************************************************************************)
(* Layer S: "get an encoding" of the WHATWG Encoding Standard.             *)
(* The label table comes from the repository fixture                       *)
(* src/test_labels_names.rs (generated from encodings.json).               *)
(***************************************************************************)
EXTENDS StdEncoders

LabelData == JsonDeserialize(DataDir \o "/labels.json")
LabelTable == LabelData.labels          \* sequence of [label |-> byte sequence, name |-> string]
EncodingNames == LabelData.names        \* the 40 names

LabelSet == {LabelTable[i].label : i \in 1..Len(LabelTable)}
\* function from label (byte sequence, lower case) to encoding name
LabelMap == [l \in LabelSet |-> LabelTable[CHOOSE i \in 1..Len(LabelTable) : LabelTable[i].label = l].name]

IsAsciiWs(b) == b = 9 \/ b = 10 \/ b = 12 \/ b = 13 \/ b = 32

RECURSIVE StripLeft(_)
StripLeft(s) == IF s # <<>> /\ IsAsciiWs(Head(s)) THEN StripLeft(Tail(s)) ELSE s
RECURSIVE StripRight(_)
StripRight(s) == IF s # <<>> /\ IsAsciiWs(s[Len(s)]) THEN StripRight(SubSeq(s, 1, Len(s) - 1)) ELSE s
Strip(s) == StripRight(StripLeft(s))

Lower(s) == [i \in 1..Len(s) |-> IF s[i] >= 65 /\ s[i] <= 90 THEN s[i] + 32 ELSE s[i]]

\* "" = failure
GetEncoding(bytes) ==
  LET t == Lower(Strip(bytes)) IN IF t \in LabelSet THEN LabelMap[t] ELSE ""

GetEncodingNoReplacement(bytes) ==
  LET e == GetEncoding(bytes) IN IF e = "replacement" THEN "" ELSE e
=============================================================================
