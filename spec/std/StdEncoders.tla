----------------------------- MODULE StdEncoders -----------------------------
(***************************************************************************)
(* Layer S: the encoders of the WHATWG Encoding Standard.                  *)
(*                                                                         *)
(* Output is a sequence of atoms [k, v, i]:                                *)
(*   k = "b": v = the bytes of one scalar value                            *)
(*   k = "x": v = an ISO-2022-JP escape sequence (kept separate because an *)
(*            implementation may legally stop between escape and character)*)
(*   k = "u": v = <<cp>>, the encoder returned error with code point cp    *)
(*            (U+FFFD for ISO-2022-JP's 0x0E, 0x0F, 0x1B)                  *)
(*   i = index (from 0) of the input scalar that caused the atom; the      *)
(*       end-of-queue atom of ISO-2022-JP carries the input length.        *)
(***************************************************************************)
EXTENDS Unicode

Atom(k, v, i) == [k |-> k, v |-> v, i |-> i]

\* encoding actually used for output ("get an output encoding")
OutputEncoding(enc) == IF enc \in {"UTF-16BE", "UTF-16LE", "replacement"} THEN "UTF-8" ELSE enc

SetMin(S) == CHOOSE x \in S : \A y \in S : x <= y

\* the code points of each single-byte index (a constant, evaluated once)
SbCpSet == [e \in SingleByteNames |-> {SbTables[e][i] : i \in 1..128}]

\* first pointer of cp in a single-byte index, -1 if none
SbPtr(enc, cp) ==
  IF cp \notin SbCpSet[enc] THEN -1
  ELSE LET S == {i \in 1..128 : SbTables[enc][i] = cp} IN IF S = {} THEN -1 ELSE SetMin(S) - 1

Gb2022Index(cp) == LET S == {i \in 1..Len(Gb2022Cp) : Gb2022Cp[i] = cp} IN IF S = {} THEN 0 ELSE SetMin(S)

\* bytes of one non-ASCII-handled scalar for the stateless encoders; <<>> = error (unmappable)
GbBytes(isGbk, cp) ==
  IF cp = 58853 THEN <<>>                                           \* U+E5E5
  ELSE IF isGbk /\ cp = 8364 THEN <<128>>                           \* U+20AC
  ELSE IF Gb2022Index(cp) # 0 THEN Gb2022Bytes[Gb2022Index(cp)]
  ELSE LET p == PtrGb(cp) IN
    IF p >= 0 THEN
      LET lead == p \div 190 + 129
          t == p % 190
          off == IF t < 63 THEN 64 ELSE 65
      IN  <<lead, t + off>>
    ELSE IF isGbk THEN <<>>
    ELSE LET q == IF cp < 65536 THEN GbRangesPtr(cp) ELSE cp - 65536 + 189000
             b1 == q \div 12600
             r1 == q % 12600
             b2 == r1 \div 1260
             r2 == r1 % 1260
             b3 == r2 \div 10
             b4 == r2 % 10
         IN  <<b1 + 129, b2 + 48, b3 + 129, b4 + 48>>

Big5Bytes(cp) ==
  LET p == PtrBig5(cp) IN
  IF p < 0 THEN <<>>
  ELSE LET lead == p \div 157 + 129
           t == p % 157
           off == IF t < 63 THEN 64 ELSE 98
       IN  <<lead, t + off>>

EucKrBytes(cp) ==
  LET p == PtrEucKr(cp) IN IF p < 0 THEN <<>> ELSE <<p \div 190 + 129, (p % 190) + 65>>

EucJpBytes(cp) ==
  IF cp = 165 THEN <<92>>
  ELSE IF cp = 8254 THEN <<126>>
  ELSE IF InR(cp, 65377, 65439) THEN <<142, cp - 65377 + 161>>
  ELSE LET c == IF cp = 8722 THEN 65293 ELSE cp
           p == PtrJis0208(c)
       IN  IF p < 0 THEN <<>> ELSE <<p \div 94 + 161, (p % 94) + 161>>

SjisBytes(cp) ==
  IF cp = 128 THEN <<128>>
  ELSE IF cp = 165 THEN <<92>>
  ELSE IF cp = 8254 THEN <<126>>
  ELSE IF InR(cp, 65377, 65439) THEN <<cp - 65377 + 161>>
  ELSE LET c == IF cp = 8722 THEN 65293 ELSE cp
           p == PtrSjis(c)
       IN  IF p < 0 THEN <<>>
           ELSE LET lead == p \div 188
                    loff == IF lead < 31 THEN 129 ELSE 193
                    t == p % 188
                    off == IF t < 63 THEN 64 ELSE 65
                IN  <<lead + loff, t + off>>

\* stateless encoders: bytes of one scalar, <<>> = error with that scalar
ScalarBytes(enc, cp) ==
  LET f == Family(enc) IN
  IF f = "utf8" THEN Utf8Encode(cp)
  ELSE IF cp < 128 THEN <<cp>>
  ELSE CASE f = "sb" -> (LET p == SbPtr(enc, cp) IN IF p < 0 THEN <<>> ELSE <<p + 128>>)
         [] f = "userdef" -> IF InR(cp, 63360, 63487) THEN <<cp - 63360 + 128>> ELSE <<>>
         [] f = "gb" -> GbBytes(enc = "GBK", cp)
         [] f = "big5" -> Big5Bytes(cp)
         [] f = "euckr" -> EucKrBytes(cp)
         [] f = "eucjp" -> EucJpBytes(cp)
         [] f = "sjis" -> SjisBytes(cp)

(***************************************************************************)
(* ISO-2022-JP encoder: state in {"ascii", "roman", "jis0208"}.  One       *)
(* scalar may take two handler invocations (escape + prepend); IsoEncOne   *)
(* returns the atoms for one scalar and the state afterwards.              *)
(***************************************************************************)
EscAscii == <<27, 40, 66>>
EscRoman == <<27, 40, 74>>
EscJis   == <<27, 36, 66>>

RECURSIVE IsoEncOne(_, _, _, _)
IsoEncOne(st, cp, i, acc) ==
  IF (st = "ascii" \/ st = "roman") /\ (cp = 14 \/ cp = 15 \/ cp = 27) THEN
    [st |-> st, atoms |-> Append(acc, Atom("u", <<65533>>, i))]
  ELSE IF st = "ascii" /\ cp < 128 THEN [st |-> st, atoms |-> Append(acc, Atom("b", <<cp>>, i))]
  ELSE IF st = "roman" /\ ((cp < 128 /\ cp # 92 /\ cp # 126) \/ cp = 165 \/ cp = 8254) THEN
    [st |-> st, atoms |-> Append(acc, Atom("b", <<IF cp < 128 THEN cp ELSE IF cp = 165 THEN 92 ELSE 126>>, i))]
  ELSE IF cp < 128 /\ st # "ascii" THEN IsoEncOne("ascii", cp, i, Append(acc, Atom("x", EscAscii, i)))
  ELSE IF (cp = 165 \/ cp = 8254) /\ st # "roman" THEN IsoEncOne("roman", cp, i, Append(acc, Atom("x", EscRoman, i)))
  ELSE
    LET c1 == IF cp = 8722 THEN 65293 ELSE cp
        c2 == IF InR(c1, 65377, 65439) THEN Katakana[c1 - 65377 + 1] ELSE c1
        p == PtrJis0208(c2)
    IN  IF p < 0 THEN
          IF st = "jis0208" THEN IsoEncOne("ascii", cp, i, Append(acc, Atom("x", EscAscii, i)))
          ELSE [st |-> st, atoms |-> Append(acc, Atom("u", <<cp>>, i))]
        ELSE IF st # "jis0208" THEN IsoEncOne("jis0208", cp, i, Append(acc, Atom("x", EscJis, i)))
        ELSE [st |-> st, atoms |-> Append(acc, Atom("b", <<p \div 94 + 33, (p % 94) + 33>>, i))]

EncInit == "ascii"

\* one scalar (index i) through the encoder `enc` (an output encoding) in state st
EncOne(enc, st, cp, i) ==
  IF enc = "ISO-2022-JP" THEN IsoEncOne(st, cp, i, <<>>)
  ELSE LET b == ScalarBytes(enc, cp)
       IN  [st |-> st, atoms |-> <<IF b = <<>> THEN Atom("u", <<cp>>, i) ELSE Atom("b", b, i)>>]

RECURSIVE EncFeedR(_, _, _, _, _, _)
EncFeedR(enc, st, cps, j, base, acc) ==
  IF j > Len(cps) THEN [st |-> st, atoms |-> acc]
  ELSE LET r == EncOne(enc, st, cps[j], base + j - 1)
       IN  EncFeedR(enc, r.st, cps, j + 1, base, acc \o r.atoms)

\* feed scalars whose first one has index base
EncFeed(enc, st, cps, base) == EncFeedR(enc, st, cps, 1, base, <<>>)

\* end-of-queue at index i
EncEof(enc, st, i) ==
  IF enc = "ISO-2022-JP" /\ st # "ascii" THEN [st |-> "ascii", atoms |-> <<Atom("x", EscAscii, i)>>]
  ELSE [st |-> st, atoms |-> <<>>]

\* whole text
EncRun(enc, cps) ==
  LET f == EncFeed(enc, EncInit, cps, 0)
      e == EncEof(enc, f.st, Len(cps))
  IN  f.atoms \o e.atoms

\* decimal digits of n as ASCII bytes
RECURSIVE Digits(_)
Digits(n) == IF n < 10 THEN <<48 + n>> ELSE Append(Digits(n \div 10), 48 + (n % 10))
Ncr(cp) == <<38, 35>> \o Digits(cp) \o <<59>>

\* the "html" error mode: unmappables become numeric character references (atom kind "n")
WithNcr(atoms) == [j \in 1..Len(atoms) |-> IF atoms[j].k = "u" THEN Atom("n", Ncr(atoms[j].v[1]), atoms[j].i) ELSE atoms[j]]

AtomBytes(atoms) == FlattenSeq([j \in 1..Len(atoms) |-> IF atoms[j].k = "u" THEN <<>> ELSE atoms[j].v])

\* the Standard's "encode" with the html error mode: bytes of a whole text
EncodeHtml(enc, cps) == AtomBytes(WithNcr(EncRun(OutputEncoding(enc), cps)))

(***************************************************************************)
(* The characters the Standard's encoders fold on purpose (property C12):  *)
(* what decoding the encoder's output gives back for input scalar cp.      *)
(***************************************************************************)
FoldOf(enc, cp) ==
  LET f == Family(enc) IN
  IF (f = "eucjp" \/ f = "sjis") /\ cp = 165 THEN 92
  ELSE IF (f = "eucjp" \/ f = "sjis") /\ cp = 8254 THEN 126
  ELSE IF (f = "eucjp" \/ f = "sjis" \/ f = "iso2022jp") /\ cp = 8722 THEN 65293
  ELSE IF f = "iso2022jp" /\ InR(cp, 65377, 65439) THEN Katakana[cp - 65377 + 1]
  ELSE IF f = "gb" /\ Gb2022Index(cp) # 0 THEN
    LET b == Gb2022Bytes[Gb2022Index(cp)]
        off == IF b[2] < 127 THEN 64 ELSE 65
    IN  Lookup(IdxGb, (b[1] - 129) * 190 + (b[2] - off))
  ELSE cp
=============================================================================
