----------------------------- MODULE StdDecoders -----------------------------
(***************************************************************************)
(* Layer S: the decoders of the WHATWG Encoding Standard as transducers.   *)
(* One handler per decoder, written in the Standard's shape:               *)
(*    Handler(enc, st, tok) = [st, emit, err, restore, fin, sp]            *)
(* tok is a byte 0..255 or EOQ (end-of-queue); emit is the sequence of     *)
(* scalar values output; err says "return error"; restore is the sequence  *)
(* of bytes the handler puts back on the I/O queue; fin says "finished".   *)
(* sp marks the two ISO-2022-JP events the crate's span convention needs   *)
(* ("esc": a valid escape sequence completed; "dblesc": it completed right *)
(* after another one, which the Standard reports as an error; "escerr":    *)
(* ESC arrived where a trail byte was expected - the error is the lead     *)
(* byte alone and the ESC already belongs to the next sequence).           *)
(*                                                                         *)
(* The Standard has no positions; the crate has (Malformed(len, after)).   *)
(* The stream layer below defines the span of an error as the bytes read   *)
(* for the current sequence minus the restored suffix.                     *)
(***************************************************************************)
EXTENDS Indexes

EOQ == -1
InR(b, lo, hi) == b >= lo /\ b <= hi

\* uniform decoder state record (fields are reused per decoder, see each handler)
Blank == [s |-> "", t |-> "", a |-> 0, b |-> 0, c |-> 0, d |-> 0, e |-> 0, o |-> FALSE]

R(st, emit, err, restore, fin, sp) ==
  [st |-> st, emit |-> emit, err |-> err, restore |-> restore, fin |-> fin, sp |-> sp]
Ok(st, emit)     == R(st, emit, FALSE, <<>>, FALSE, "")
Err(st, restore) == R(st, <<>>, TRUE, restore, FALSE, "")
Fin(st)          == R(st, <<>>, FALSE, <<>>, TRUE, "")

Utf16Names == {"UTF-16BE", "UTF-16LE"}

Family(enc) ==
  CASE enc = "UTF-8" -> "utf8"
    [] enc \in SingleByteNames -> "sb"
    [] enc \in {"GBK", "gb18030"} -> "gb"
    [] enc = "Big5" -> "big5"
    [] enc = "EUC-JP" -> "eucjp"
    [] enc = "ISO-2022-JP" -> "iso2022jp"
    [] enc = "Shift_JIS" -> "sjis"
    [] enc = "EUC-KR" -> "euckr"
    [] enc = "replacement" -> "repl"
    [] enc = "UTF-16BE" -> "utf16be"
    [] enc = "UTF-16LE" -> "utf16le"
    [] enc = "x-user-defined" -> "userdef"

AllEncodings == SingleByteNames \cup {"UTF-8", "GBK", "gb18030", "Big5", "EUC-JP", "ISO-2022-JP", "Shift_JIS",
                                      "EUC-KR", "replacement", "UTF-16BE", "UTF-16LE", "x-user-defined"}

(******************************** UTF-8 ************************************)
\* a = code point, b = bytes seen, c = bytes needed, d = lower boundary, e = upper boundary
Utf8Init == [Blank EXCEPT !.d = 128, !.e = 191]
Utf8H(st, b) ==
  IF b = EOQ THEN (IF st.c # 0 THEN Err(Utf8Init, <<>>) ELSE Fin(st))
  ELSE IF st.c = 0 THEN
    IF b <= 127 THEN Ok(st, <<b>>)
    ELSE IF InR(b, 194, 223) THEN Ok([st EXCEPT !.c = 1, !.a = b % 32], <<>>)
    ELSE IF InR(b, 224, 239) THEN
      Ok([st EXCEPT !.c = 2, !.a = b % 16, !.d = IF b = 224 THEN 160 ELSE 128,
                    !.e = IF b = 237 THEN 159 ELSE 191], <<>>)
    ELSE IF InR(b, 240, 244) THEN
      Ok([st EXCEPT !.c = 3, !.a = b % 8, !.d = IF b = 240 THEN 144 ELSE 128,
                    !.e = IF b = 244 THEN 143 ELSE 191], <<>>)
    ELSE Err(st, <<>>)
  ELSE IF ~InR(b, st.d, st.e) THEN Err(Utf8Init, <<b>>)
  ELSE LET cp == st.a * 64 + (b % 64)
           seen == st.b + 1
       IN  IF seen # st.c THEN Ok([st EXCEPT !.a = cp, !.b = seen, !.d = 128, !.e = 191], <<>>)
           ELSE Ok(Utf8Init, <<cp>>)

(***************************** single-byte *********************************)
SbH(enc, st, b) ==
  IF b = EOQ THEN Fin(st)
  ELSE IF b < 128 THEN Ok(st, <<b>>)
  ELSE LET cp == SbTables[enc][b - 127] IN IF cp = 0 THEN Err(st, <<>>) ELSE Ok(st, <<cp>>)

(***************************** gb18030 / GBK *******************************)
\* a = first, b = second, c = third
GbH(st, b) ==
  IF b = EOQ THEN (IF st.a = 0 /\ st.b = 0 /\ st.c = 0 THEN Fin(st) ELSE Err(Blank, <<>>))
  ELSE IF st.c # 0 THEN
    IF ~InR(b, 48, 57) THEN Err(Blank, <<st.b, st.c, b>>)
    ELSE LET p == (st.a - 129) * 12600 + (st.b - 48) * 1260 + (st.c - 129) * 10 + b - 48
             cp == GbRangesCp(p)
         IN  IF cp = -1 THEN Err(Blank, <<>>) ELSE Ok(Blank, <<cp>>)
  ELSE IF st.b # 0 THEN
    IF InR(b, 129, 254) THEN Ok([st EXCEPT !.c = b], <<>>) ELSE Err(Blank, <<st.b, b>>)
  ELSE IF st.a # 0 THEN
    IF InR(b, 48, 57) THEN Ok([st EXCEPT !.b = b], <<>>)
    ELSE LET off == IF b < 127 THEN 64 ELSE 65
             p == IF InR(b, 64, 126) \/ InR(b, 128, 254) THEN (st.a - 129) * 190 + (b - off) ELSE -1
             cp == Lookup(IdxGb, p)
         IN  IF cp # 0 THEN Ok(Blank, <<cp>>)
             ELSE IF b < 128 THEN Err(Blank, <<b>>) ELSE Err(Blank, <<>>)
  ELSE IF b < 128 THEN Ok(st, <<b>>)
  ELSE IF b = 128 THEN Ok(st, <<8364>>)
  ELSE IF InR(b, 129, 254) THEN Ok([st EXCEPT !.a = b], <<>>)
  ELSE Err(st, <<>>)

(********************************* Big5 ************************************)
\* a = lead
Big5H(st, b) ==
  IF b = EOQ THEN (IF st.a # 0 THEN Err(Blank, <<>>) ELSE Fin(st))
  ELSE IF st.a # 0 THEN
    LET off == IF b < 127 THEN 64 ELSE 98
        p == IF InR(b, 64, 126) \/ InR(b, 161, 254) THEN (st.a - 129) * 157 + (b - off) ELSE -1
        cp == Lookup(IdxBig5, p)
    IN  IF p = 1133 THEN Ok(Blank, <<202, 772>>)
        ELSE IF p = 1135 THEN Ok(Blank, <<202, 780>>)
        ELSE IF p = 1164 THEN Ok(Blank, <<234, 772>>)
        ELSE IF p = 1166 THEN Ok(Blank, <<234, 780>>)
        ELSE IF cp # 0 THEN Ok(Blank, <<cp>>)
        ELSE IF b < 128 THEN Err(Blank, <<b>>) ELSE Err(Blank, <<>>)
  ELSE IF b < 128 THEN Ok(st, <<b>>)
  ELSE IF InR(b, 129, 254) THEN Ok([st EXCEPT !.a = b], <<>>)
  ELSE Err(st, <<>>)

(******************************** EUC-KR ***********************************)
EucKrH(st, b) ==
  IF b = EOQ THEN (IF st.a # 0 THEN Err(Blank, <<>>) ELSE Fin(st))
  ELSE IF st.a # 0 THEN
    LET p == IF InR(b, 65, 254) THEN (st.a - 129) * 190 + (b - 65) ELSE -1
        cp == Lookup(IdxEucKr, p)
    IN  IF cp # 0 THEN Ok(Blank, <<cp>>)
        ELSE IF b < 128 THEN Err(Blank, <<b>>) ELSE Err(Blank, <<>>)
  ELSE IF b < 128 THEN Ok(st, <<b>>)
  ELSE IF InR(b, 129, 254) THEN Ok([st EXCEPT !.a = b], <<>>)
  ELSE Err(st, <<>>)

(******************************* Shift_JIS *********************************)
SjisH(st, b) ==
  IF b = EOQ THEN (IF st.a # 0 THEN Err(Blank, <<>>) ELSE Fin(st))
  ELSE IF st.a # 0 THEN
    LET off == IF b < 127 THEN 64 ELSE 65
        loff == IF st.a < 160 THEN 129 ELSE 193
        p == IF InR(b, 64, 126) \/ InR(b, 128, 252) THEN (st.a - loff) * 188 + b - off ELSE -1
        cp == Lookup(IdxJis0208, p)
    IN  IF InR(p, 8836, 10715) THEN Ok(Blank, <<57344 - 8836 + p>>)
        ELSE IF cp # 0 THEN Ok(Blank, <<cp>>)
        ELSE IF b < 128 THEN Err(Blank, <<b>>) ELSE Err(Blank, <<>>)
  ELSE IF b <= 128 THEN Ok(st, <<b>>)
  ELSE IF InR(b, 161, 223) THEN Ok(st, <<65377 - 161 + b>>)
  ELSE IF InR(b, 129, 159) \/ InR(b, 224, 252) THEN Ok([st EXCEPT !.a = b], <<>>)
  ELSE Err(st, <<>>)

(********************************* EUC-JP **********************************)
\* a = lead, o = jis0212 flag
EucJpH(st, b) ==
  IF b = EOQ THEN (IF st.a # 0 THEN Err(Blank, <<>>) ELSE Fin(st))
  ELSE IF st.a = 142 /\ InR(b, 161, 223) THEN Ok(Blank, <<65377 - 161 + b>>)
  ELSE IF st.a = 143 /\ InR(b, 161, 254) THEN Ok([st EXCEPT !.o = TRUE, !.a = b], <<>>)
  ELSE IF st.a # 0 THEN
    LET cp == IF InR(st.a, 161, 254) /\ InR(b, 161, 254)
              THEN Lookup(IF st.o THEN IdxJis0212 ELSE IdxJis0208, (st.a - 161) * 94 + b - 161)
              ELSE 0
    IN  IF cp # 0 THEN Ok(Blank, <<cp>>)
        ELSE IF b < 128 THEN Err(Blank, <<b>>) ELSE Err(Blank, <<>>)
  ELSE IF b < 128 THEN Ok(st, <<b>>)
  ELSE IF b = 142 \/ b = 143 \/ InR(b, 161, 254) THEN Ok([st EXCEPT !.a = b], <<>>)
  ELSE Err(st, <<>>)

(******************************* ISO-2022-JP *******************************)
\* s = decoder state, t = decoder output state, a = lead, o = output flag
IsoInit == [Blank EXCEPT !.s = "ascii", !.t = "ascii"]
IsoBad(b) == b = 14 \/ b = 15 \/ b = 27
IsoH(st, b) ==
  CASE st.s = "ascii" ->
         IF b = 27 THEN Ok([st EXCEPT !.s = "escstart"], <<>>)
         ELSE IF b = EOQ THEN Fin(st)
         ELSE IF InR(b, 0, 127) /\ ~IsoBad(b) THEN Ok([st EXCEPT !.o = FALSE], <<b>>)
         ELSE Err([st EXCEPT !.o = FALSE], <<>>)
    [] st.s = "roman" ->
         IF b = 27 THEN Ok([st EXCEPT !.s = "escstart"], <<>>)
         ELSE IF b = 92 THEN Ok([st EXCEPT !.o = FALSE], <<165>>)
         ELSE IF b = 126 THEN Ok([st EXCEPT !.o = FALSE], <<8254>>)
         ELSE IF b = EOQ THEN Fin(st)
         ELSE IF InR(b, 0, 127) /\ ~IsoBad(b) THEN Ok([st EXCEPT !.o = FALSE], <<b>>)
         ELSE Err([st EXCEPT !.o = FALSE], <<>>)
    [] st.s = "katakana" ->
         IF b = 27 THEN Ok([st EXCEPT !.s = "escstart"], <<>>)
         ELSE IF b = EOQ THEN Fin(st)
         ELSE IF InR(b, 33, 95) THEN Ok([st EXCEPT !.o = FALSE], <<65377 - 33 + b>>)
         ELSE Err([st EXCEPT !.o = FALSE], <<>>)
    [] st.s = "lead" ->
         IF b = 27 THEN Ok([st EXCEPT !.s = "escstart"], <<>>)
         ELSE IF b = EOQ THEN Fin(st)
         ELSE IF InR(b, 33, 126) THEN Ok([st EXCEPT !.o = FALSE, !.a = b, !.s = "trail"], <<>>)
         ELSE Err([st EXCEPT !.o = FALSE], <<>>)
    [] st.s = "trail" ->
         IF b = 27 THEN R([st EXCEPT !.s = "escstart"], <<>>, TRUE, <<>>, FALSE, "escerr")
         ELSE IF b # EOQ /\ InR(b, 33, 126) THEN
           LET cp == Lookup(IdxJis0208, (st.a - 33) * 94 + b - 33)
           IN  IF cp = 0 THEN Err([st EXCEPT !.s = "lead"], <<>>) ELSE Ok([st EXCEPT !.s = "lead"], <<cp>>)
         ELSE Err([st EXCEPT !.s = "lead"], <<>>)
    [] st.s = "escstart" ->
         IF b = 36 \/ b = 40 THEN Ok([st EXCEPT !.a = b, !.s = "esc"], <<>>)
         ELSE Err([st EXCEPT !.o = FALSE, !.s = st.t], IF b = EOQ THEN <<>> ELSE <<b>>)
    [] st.s = "esc" ->
         LET lead == st.a
             ns == IF lead = 40 /\ b = 66 THEN "ascii"
                   ELSE IF lead = 40 /\ b = 74 THEN "roman"
                   ELSE IF lead = 40 /\ b = 73 THEN "katakana"
                   ELSE IF lead = 36 /\ (b = 64 \/ b = 66) THEN "lead"
                   ELSE ""
         IN  IF ns # "" THEN
               R([st EXCEPT !.a = 0, !.s = ns, !.t = ns, !.o = TRUE], <<>>, st.o, <<>>, FALSE,
                 IF st.o THEN "dblesc" ELSE "esc")
             ELSE Err([st EXCEPT !.a = 0, !.o = FALSE, !.s = st.t], IF b = EOQ THEN <<lead>> ELSE <<lead, b>>)

(********************************* UTF-16 **********************************)
\* a = lead byte + 1 (0 = none), b = lead surrogate (0 = none)
Utf16H(be, st, b) ==
  IF b = EOQ THEN (IF st.a # 0 \/ st.b # 0 THEN Err(Blank, <<>>) ELSE Fin(st))
  ELSE IF st.a = 0 THEN Ok([st EXCEPT !.a = b + 1], <<>>)
  ELSE LET lb == st.a - 1
           cu == IF be THEN lb * 256 + b ELSE b * 256 + lb
       IN  IF st.b # 0 THEN
             IF InR(cu, 56320, 57343) THEN Ok(Blank, <<65536 + (st.b - 55296) * 1024 + (cu - 56320)>>)
             ELSE Err(Blank, <<lb, b>>)
           ELSE IF InR(cu, 55296, 56319) THEN Ok([Blank EXCEPT !.b = cu], <<>>)
           ELSE IF InR(cu, 56320, 57343) THEN Err(Blank, <<>>)
           ELSE Ok(Blank, <<cu>>)

(******************************* replacement *******************************)
\* o = "replacement error returned"
ReplH(st, b) ==
  IF b = EOQ THEN Fin(st)
  ELSE IF ~st.o THEN Err([st EXCEPT !.o = TRUE], <<>>)
  ELSE Fin(st)

(****************************** x-user-defined *****************************)
UserDefH(st, b) ==
  IF b = EOQ THEN Fin(st)
  ELSE IF b < 128 THEN Ok(st, <<b>>)
  ELSE Ok(st, <<63360 + b - 128>>)

(***************************************************************************)
InitDec(enc) ==
  LET f == Family(enc) IN
  IF f = "utf8" THEN Utf8Init ELSE IF f = "iso2022jp" THEN IsoInit ELSE Blank

Handler(enc, st, b) ==
  LET f == Family(enc) IN
  CASE f = "utf8" -> Utf8H(st, b)
    [] f = "sb" -> SbH(enc, st, b)
    [] f = "gb" -> GbH(st, b)
    [] f = "big5" -> Big5H(st, b)
    [] f = "euckr" -> EucKrH(st, b)
    [] f = "sjis" -> SjisH(st, b)
    [] f = "eucjp" -> EucJpH(st, b)
    [] f = "iso2022jp" -> IsoH(st, b)
    [] f = "utf16be" -> Utf16H(TRUE, st, b)
    [] f = "utf16le" -> Utf16H(FALSE, st, b)
    [] f = "repl" -> ReplH(st, b)
    [] f = "userdef" -> UserDefH(st, b)

(***************************************************************************)
(* Stream layer: the Standard's "run" loop over an I/O queue, producing    *)
(* items with spans.  Items are uniform records:                           *)
(*   [k |-> "c", a |-> scalar, b |-> 0]                                    *)
(*   [k |-> "e", a |-> span length, b |-> span end position]               *)
(* Positions are integers relative to an origin chosen by the caller       *)
(* (pos = position of the next byte to read) and may be negative.          *)
(* Stream state: d = handler state, sl = number of bytes read so far for   *)
(* the current (incomplete) sequence, fin = decoder finished.              *)
(***************************************************************************)
ItemC(cp) == [k |-> "c", a |-> cp, b |-> 0]
ItemE(len, end) == [k |-> "e", a |-> len, b |-> end]

InitStream(enc) == [d |-> InitDec(enc), sl |-> 0, fin |-> FALSE]

CpItems(emit) == [i \in 1..Len(emit) |-> ItemC(emit[i])]

\* one token (byte or EOQ) through the handler; consumed = 1 for a byte, 0 for EOQ
StepTok(enc, ss, tok, pos) ==
  LET r == Handler(enc, ss.d, tok)
      consumed == IF tok = EOQ THEN 0 ELSE 1
      pos1 == pos + consumed - Len(r.restore)
      sl1 == ss.sl + consumed - Len(r.restore)
      errItems == IF r.sp = "dblesc" THEN <<ItemE(3, pos1 - 3)>>
                  ELSE IF r.sp = "esc" THEN <<>>
                  ELSE IF r.sp = "escerr" THEN <<ItemE(sl1 - 1, pos1 - 1)>>
                  ELSE IF r.err THEN <<ItemE(sl1, pos1)>> ELSE <<>>
      closes == r.sp # "" \/ r.err \/ r.emit # <<>>
  IN  [ss |-> [d |-> r.st, sl |-> IF r.sp = "escerr" THEN 1 ELSE IF closes THEN 0 ELSE sl1, fin |-> r.fin],
       pos |-> pos1,
       items |-> CpItems(r.emit) \o errItems,
       restore |-> r.restore,
       act |-> r.err \/ r.emit # <<>> \/ r.restore # <<>>]

RECURSIVE FeedQ(_, _, _, _, _)
FeedQ(enc, ss, q, pos, items) ==
  IF q = <<>> \/ ss.fin THEN [ss |-> ss, items |-> items]
  ELSE LET r == StepTok(enc, ss, Head(q), pos)
       IN  FeedQ(enc, r.ss, r.restore \o Tail(q), r.pos, items \o r.items)

\* feed bytes whose first byte is at position pos
Feed(enc, ss, bytes, pos) == FeedQ(enc, ss, bytes, pos, <<>>)

RECURSIVE EofQ(_, _, _, _, _)
EofQ(enc, ss, q, pos, items) ==
  IF ss.fin THEN [ss |-> ss, items |-> items]
  ELSE IF q # <<>> THEN
    LET r == StepTok(enc, ss, Head(q), pos)
    IN  EofQ(enc, r.ss, r.restore \o Tail(q), r.pos, items \o r.items)
  ELSE
    LET r == StepTok(enc, ss, EOQ, pos)
    IN  IF r.ss.fin \/ ~r.act THEN [ss |-> [r.ss EXCEPT !.fin = TRUE], items |-> items \o r.items]
        ELSE EofQ(enc, r.ss, r.restore, r.pos, items \o r.items)

\* end of queue at position pos
Eof(enc, ss, pos) == EofQ(enc, ss, <<>>, pos, <<>>)

\* whole-stream decode: the item sequence of the Standard's decoder for `bytes`
Run(enc, bytes) ==
  LET f == Feed(enc, InitStream(enc), bytes, 0)
      e == Eof(enc, f.ss, Len(bytes))
  IN  f.items \o e.items

\* a decoder is "neutral" when it is between sequences and (ISO-2022-JP) in the ASCII state
Neutral(enc, ss) == ss.sl = 0 /\ ss.d = InitDec(enc)
=============================================================================
