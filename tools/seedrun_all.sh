#!/bin/bash
# usage: seedrun_all.sh [pattern ...]   run every seeded change (or those whose directory name matches a pattern) against the quick
# check of the property it breaks; one line per seed on stdout, details in seeded/<id>/last_result.json
cd /verif
pats=("$@"); [ ${#pats[@]} -eq 0 ] && pats=("")
for d in seeded/C*_*; do
  id=$(basename $d); prop=${id%%_*}
  ok=0; for p in "${pats[@]}"; do case "$id" in *$p*) ok=1;; esac; done; [ $ok -eq 1 ] || continue
  s=$(date +%s)
  r=$(python3 tools/seedtest.py $d $prop 2>&1 | tail -1 | cut -c1-160)
  echo "$id $(( $(date +%s) - s ))s $r"
done
