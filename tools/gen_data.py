#!/usr/bin/env python3
"""Generate spec/data/*.json -- the index data the TLA+ specification (Layer S) uses.

Provenance (see DESIGN.md section 3.1 and spec/data/README.md): nothing is read from
/repo/src/data.rs.  CJK indexes come from the repository's test fixtures tests/test_data/*,
which generate-encoding-data.py wrote pointer by pointer from WHATWG indexes.json; single-byte
indexes come from the Python 3 codec tables plus the documented WHATWG differences; labels come
from the fixture src/test_labels_names.rs.  The output is committed; checks never regenerate it.

Usage: gen_data.py <repo> <outdir>
"""
import json, re, sys

repo = sys.argv[1] if len(sys.argv) > 1 else '/repo'
out = sys.argv[2] if len(sys.argv) > 2 else '/verif/spec/data'
T = repo + '/tests/test_data/'


def fixture(inf, reff):
    a = open(T + inf, 'rb').read()
    b = open(T + reff, 'rb').read().decode('utf-8')
    a = a.split(b'\n', 4)[4]
    b = b.split('\n', 4)[4]
    return a.split(b'\n'), b.split('\n')


def simple(inf, reff, combos=False):
    ins, outs = fixture(inf, reff)
    idx = []
    for i, o in zip(ins, outs):
        if i == b'':
            continue
        cps = [ord(c) for c in o]
        if cps[0] == 0xFFFD:
            idx.append(0)
        elif len(cps) == 2 and combos:
            idx.append(0)  # the four Big5 two-scalar pointers are special-cased in the Standard
        else:
            idx.append(cps[0])
    return idx


big5 = simple('big5_in.txt', 'big5_in_ref.txt', True)
euckr = simple('euc_kr_in.txt', 'euc_kr_in_ref.txt')
gb = simple('gb18030_in.txt', 'gb18030_in_ref.txt')
jis0212 = simple('jis0212_in.txt', 'jis0212_in_ref.txt')
j1 = simple('jis0208_in.txt', 'jis0208_in_ref.txt')
sj = simple('shift_jis_in.txt', 'shift_jis_in_ref.txt')
jis0208 = list(sj)
for p in range(8836, min(10716, len(jis0208))):
    jis0208[p] = 0
jis0208 = jis0208[:max(len(j1), 11280)]
assert j1 == jis0208[:len(j1)]
# index jis0208 of the Standard has pointers up to 11103; the Shift_JIS fixture covers them
while jis0208 and jis0208[-1] == 0:
    jis0208.pop()


def ptr(lead, trail):
    t = trail - 0x40 if trail < 0x7F else trail - 0x41
    return (lead - 0x81) * 190 + t


orig = list(gb)
orig[ptr(0xA8, 0xBC)] = 0xE7C7
orig[ptr(0xA3, 0xA0)] = 0xE5E5
pua = [0xE78D, 0xE78E, 0xE78F, 0xE790, 0xE791, 0xE792, 0xE793, 0xE794, 0xE795, 0xE796, 0xE81E, 0xE826,
       0xE82B, 0xE82C, 0xE832, 0xE843, 0xE854, 0xE864]
byts = [(0xA6, 0xD9), (0xA6, 0xDA), (0xA6, 0xDB), (0xA6, 0xDC), (0xA6, 0xDD), (0xA6, 0xDE), (0xA6, 0xDF),
        (0xA6, 0xEC), (0xA6, 0xED), (0xA6, 0xF3), (0xFE, 0x59), (0xFE, 0x61), (0xFE, 0x66), (0xFE, 0x67),
        (0xFE, 0x6D), (0xFE, 0x7E), (0xFE, 0x90), (0xFE, 0xA0)]
for p, (l, t) in zip(pua, byts):
    orig[ptr(l, t)] = p
s = set(orig)
comp = [cp for cp in range(0x80, 0x10000) if not (0xD800 <= cp <= 0xDFFF) and cp not in s]
ranges = []
for i, cp in enumerate(comp):
    if i == 0 or cp != comp[i - 1] + 1:
        ranges.append([i, cp])
assert len(comp) == 39420, len(comp)
ranges.append([189000, 0x10000])

names = {'IBM866': 'cp866', 'ISO-8859-2': 'iso8859_2', 'ISO-8859-3': 'iso8859_3', 'ISO-8859-4': 'iso8859_4',
         'ISO-8859-5': 'iso8859_5', 'ISO-8859-6': 'iso8859_6', 'ISO-8859-7': 'iso8859_7',
         'ISO-8859-8': 'iso8859_8', 'ISO-8859-8-I': 'iso8859_8', 'ISO-8859-10': 'iso8859_10',
         'ISO-8859-13': 'iso8859_13', 'ISO-8859-14': 'iso8859_14', 'ISO-8859-15': 'iso8859_15',
         'ISO-8859-16': 'iso8859_16', 'KOI8-R': 'koi8_r', 'KOI8-U': 'koi8_u', 'macintosh': 'mac_roman',
         'windows-874': 'cp874', 'windows-1250': 'cp1250', 'windows-1251': 'cp1251',
         'windows-1252': 'cp1252', 'windows-1253': 'cp1253', 'windows-1254': 'cp1254',
         'windows-1255': 'cp1255', 'windows-1256': 'cp1256', 'windows-1257': 'cp1257',
         'windows-1258': 'cp1258', 'x-mac-cyrillic': 'mac_cyrillic'}
sb = {}
for n, py in names.items():
    t = []
    for i in range(128):
        b = bytes([0x80 + i])
        try:
            u = ord(b.decode(py))
        except Exception:
            u = (0x80 + i) if i < 32 else 0     # WHATWG: undefined C1 bytes pass through
        t.append(u)
    if n == 'KOI8-U':                           # WHATWG KOI8-U is KOI8-RU
        t[0xAE - 0x80] = 0x45E
        t[0xBE - 0x80] = 0x40E
    if n == 'windows-1255':                     # pinned by the repository's test_windows_1255_ca
        t[0xCA - 0x80] = 0x5BA
    sb[n] = t

KATAKANA = [0x3002, 0x300C, 0x300D, 0x3001, 0x30FB, 0x30F2, 0x30A1, 0x30A3, 0x30A5, 0x30A7, 0x30A9, 0x30E3,
            0x30E5, 0x30E7, 0x30C3, 0x30FC, 0x30A2, 0x30A4, 0x30A6, 0x30A8, 0x30AA, 0x30AB, 0x30AD, 0x30AF,
            0x30B1, 0x30B3, 0x30B5, 0x30B7, 0x30B9, 0x30BB, 0x30BD, 0x30BF, 0x30C1, 0x30C4, 0x30C6, 0x30C8,
            0x30CA, 0x30CB, 0x30CC, 0x30CD, 0x30CE, 0x30CF, 0x30D2, 0x30D5, 0x30D8, 0x30DB, 0x30DE, 0x30DF,
            0x30E0, 0x30E1, 0x30E2, 0x30E4, 0x30E6, 0x30E8, 0x30E9, 0x30EA, 0x30EB, 0x30EC, 0x30ED, 0x30EF,
            0x30F3, 0x309B, 0x309C]
assert len(KATAKANA) == 63

# ---- candidate inverse tables (NOT trusted: spec/std/Indexes.tla checks them against the forward
# indexes with the Standard's declarative rule).  Dense arrays: inv[cp+1] = pointer+1, 0 = none.


def dense(index, lo, hi, exclude=lambda p: False, last=()):
    inv = [0] * (hi - lo)
    for p, cp in enumerate(index):
        if cp and lo <= cp < hi and not exclude(p):
            if inv[cp - lo] == 0 or cp in last:
                inv[cp - lo] = p + 1
    return inv


B5ex = lambda p: p < (0xA1 - 0x81) * 157
B5last = (0x2550, 0x255E, 0x2561, 0x256A, 0x5341, 0x5345)
inv = {
    'jis0208': dense(jis0208, 0, 0x10000),
    'sjis': dense(jis0208, 0, 0x10000, lambda p: 8272 <= p <= 8835),
    'euckr': dense(euckr, 0, 0x10000),
    'gb18030': dense(gb, 0, 0x10000),
    'big5': dense(big5, 0, 0x10000, B5ex, B5last),
    'big5p2': dense(big5, 0x20000, 0x30000, B5ex, B5last),
}

# ---- labels
TESTL = open(repo + '/src/test_labels_names.rs', encoding='utf-8').read()
ENC_NAMES = ['UTF-8', 'IBM866', 'ISO-8859-2', 'ISO-8859-3', 'ISO-8859-4', 'ISO-8859-5', 'ISO-8859-6',
             'ISO-8859-7', 'ISO-8859-8', 'ISO-8859-8-I', 'ISO-8859-10', 'ISO-8859-13', 'ISO-8859-14',
             'ISO-8859-15', 'ISO-8859-16', 'KOI8-R', 'KOI8-U', 'macintosh', 'windows-874', 'windows-1250',
             'windows-1251', 'windows-1252', 'windows-1253', 'windows-1254', 'windows-1255', 'windows-1256',
             'windows-1257', 'windows-1258', 'x-mac-cyrillic', 'GBK', 'gb18030', 'Big5', 'EUC-JP',
             'ISO-2022-JP', 'Shift_JIS', 'EUC-KR', 'UTF-16BE', 'UTF-16LE', 'replacement', 'x-user-defined']
assert len(ENC_NAMES) == 40
ident = {n.upper().replace('-', '_'): n for n in ENC_NAMES}
labels = []
for m in re.finditer(r'for_label\(b"([^"]*)"\),\s*Some\(([A-Z0-9_]+)\)', TESTL):
    labels.append([m.group(1), ident[m.group(2)]])
assert len(labels) == 228, len(labels)

json.dump({'big5': big5, 'euckr': euckr, 'gb18030': gb, 'jis0208': jis0208, 'jis0212': jis0212,
           'gbranges': ranges, 'sb': sb, 'katakana': KATAKANA,
           'gb2022cp': pua, 'gb2022bytes': [list(x) for x in byts]},
          open(out + '/index.json', 'w'), separators=(',', ':'))
json.dump(inv, open(out + '/inverse.json', 'w'), separators=(',', ':'))
json.dump({'labels': [{'label': [ord(c) for c in l], 'name': n} for l, n in labels], 'names': ENC_NAMES},
          open(out + '/labels.json', 'w'), separators=(',', ':'))
print('big5', len(big5), 'euckr', len(euckr), 'gb18030', len(gb), 'jis0208', len(jis0208), 'jis0212',
      len(jis0212), 'gbranges', len(ranges), 'labels', len(labels))
