"""Runner library: build the harness from /repo's working tree, record traces from the real code,
validate them with TLC against the TLA+ monitors, run TLC model checking of the spec, map violations
to replay files, apply known findings, write evidence.  All judgement is done by TLC evaluating TLA+
definitions; this file only orchestrates and counts."""
import json, os, re, shutil, subprocess, sys, time, concurrent.futures, hashlib

VERIF = os.path.dirname(os.path.dirname(os.path.abspath(__file__)))
REPO = os.environ.get('VERIF_REPO', '/repo')
JAR = '/opt/veriftools/tla/tla2tools.jar:/opt/veriftools/tla/CommunityModules-deps.jar'
SPEC = VERIF + '/spec'
LIBPATH = ':'.join(SPEC + '/' + d for d in ('std', 'api', 'impl', 'mc', 'trace'))
RUN = VERIF + '/run'
NCPU = os.cpu_count() or 8


class ToolError(Exception):
    pass


def log(*a):
    print('[check]', *a, file=sys.stderr, flush=True)


def sh(cmd, cwd=None, env=None, timeout=None, check=True):
    e = dict(os.environ)
    e.setdefault('CARGO_NET_OFFLINE', 'true')
    if env:
        e.update(env)
    p = subprocess.run(cmd, cwd=cwd, env=e, stdout=subprocess.PIPE, stderr=subprocess.STDOUT, text=True,
                       timeout=timeout)
    if check and p.returncode != 0:
        raise ToolError('command failed (%d): %s\n%s' % (p.returncode, ' '.join(cmd), p.stdout[-4000:]))
    return p


# ------------------------------------------------------------------------------------------------
# harness builds

BUILDS = {
    'default': dict(features=[], toolchain=None),
    'hooks': dict(features=['hooks'], toolchain=None),
    'lessslow': dict(features=['lessslow'], toolchain=None),
    'fastlegacy': dict(features=['fastlegacy'], toolchain=None),
    'simd': dict(features=['simd'], toolchain='nightly'),
    'debug': dict(features=[], toolchain=None, profile='dev'),
}


def build_harness(kind='default'):
    b = BUILDS[kind]
    tdir = 'target' if kind == 'default' else 'target-' + kind
    cmd = ['cargo']
    if b['toolchain']:
        cmd.append('+' + b['toolchain'])
    cmd += ['build', '--offline', '--target-dir', tdir]
    prof = b.get('profile', 'release')
    if prof == 'release':
        cmd.append('--release')
    if b['features']:
        cmd += ['--features', ','.join(b['features'])]
    t = time.time()
    p = sh(cmd, cwd=VERIF + '/harness', timeout=1800)
    binp = '%s/harness/%s/%s/verif_harness' % (VERIF, tdir, 'release' if prof == 'release' else 'debug')
    if not os.path.exists(binp):
        raise ToolError('harness binary missing: ' + binp)
    log('built harness[%s] in %.1fs' % (kind, time.time() - t))
    return binp


def run_profile(binp, profile, outdir, seed, tier, shards=None, extra=()):
    os.makedirs(outdir, exist_ok=True)
    shards = shards or NCPU
    cmd = [binp, profile, '--out', outdir, '--shards', str(shards), '--seed', str(seed), '--tier', tier] + list(extra)
    t = time.time()
    p = sh(cmd, timeout=3600)
    last = [l for l in p.stdout.strip().split('\n') if l.startswith('{')]
    st = json.loads(last[-1]) if last else {}
    st['wall_s'] = round(time.time() - t, 2)
    files = sorted(os.path.join(outdir, f) for f in os.listdir(outdir) if f.startswith(profile + '_') and f.endswith('.ndjson'))
    files = [f for f in files if os.path.getsize(f) > 0]
    st['files'] = files
    log('recorded %s: %s histories, %s events in %.1fs' % (profile, st.get('histories'), st.get('events'), st['wall_s']))
    return st


# ------------------------------------------------------------------------------------------------
# TLC

def tlc(module_dir, module, cfg, env=None, workers=1, xmx='2g', timeout=3600, metadir=None, extra=(), coverage=False,
        deque=False):
    metadir = metadir or os.path.join(RUN, 'meta', '%s_%d_%d' % (module, os.getpid(), int(time.time() * 1e6) % 10 ** 9))
    os.makedirs(metadir, exist_ok=True)
    # TLC creates an (empty) scratch directory under java.io.tmpdir per run: keep it inside the run's metadir, which is removed
    jopts = ['-XX:+UseParallelGC', '-Xss1g', '-Xmx' + xmx, '-DTLA-Library=' + LIBPATH, '-Djava.io.tmpdir=' + metadir]
    if deque:
        jopts.append('-Dtlc2.tool.queue.IStateQueue=StateDeque')
    cmd = ['java'] + jopts + ['-cp', JAR, 'tlc2.TLC', '-workers', str(workers), '-config', cfg, '-metadir', metadir,
                             '-noGenerateSpecTE'] + (['-coverage', '1'] if coverage else []) + list(extra) + [module]
    e = {'VERIF_DATA': SPEC + '/data'}
    if env:
        e.update(env)
    t = time.time()
    try:
        p = sh(cmd, cwd=module_dir, env=e, timeout=timeout, check=False)
    except subprocess.TimeoutExpired:
        shutil.rmtree(metadir, ignore_errors=True)
        raise ToolError('TLC timeout: %s %s' % (module, cfg))
    shutil.rmtree(metadir, ignore_errors=True)
    out = p.stdout
    r = {'rc': p.returncode, 'out': out, 'wall_s': round(time.time() - t, 2)}
    m = re.search(r'(\d+) states generated, (\d+) distinct states found', out)
    if m:
        r['generated'] = int(m.group(1))
        r['distinct'] = int(m.group(2))
    m = re.search(r'The depth of the complete state graph search is (\d+)', out)
    if m:
        r['depth'] = int(m.group(1))
    r['completed'] = 'Model checking completed. No error has been found.' in out
    return r


def parse_result_line(out):
    """the VERIF-RESULT line printed by the AtEnd invariant of a trace spec"""
    res = None
    for line in out.split('\n'):
        if line.startswith('<<"VERIF-RESULT"'):
            m = re.match(r'<<"VERIF-RESULT", "(.*)">>$', line.strip())
            if m:
                s = m.group(1).encode().decode('unicode_escape')
                res = json.loads(s)
    return res


def validate_trace(spec, tracefile, timeout=3600, xmx='2g'):
    """run trace spec `spec` (module name under spec/trace) on one ndjson file"""
    r = tlc(SPEC + '/trace', spec + '.tla', spec + '.cfg', env={'TRACE': tracefile}, timeout=timeout, xmx=xmx)
    res = parse_result_line(r['out'])
    if res is None or not r['completed'] or 'VERIF-UNMATCHED' in r['out']:
        tail = '\n'.join(r['out'].split('\n')[-40:])
        raise ToolError('trace validation did not complete for %s (%s):\n%s' % (tracefile, spec, tail))
    res['states'] = r.get('distinct', 0)
    res['generated'] = r.get('generated', 0)
    res['wall_s'] = r['wall_s']
    res['file'] = tracefile
    return res


def validate_traces(spec, files, jobs=None, timeout=3600, xmx='2g'):
    jobs = jobs or max(1, min(NCPU, len(files)))
    t = time.time()
    out = []
    with concurrent.futures.ThreadPoolExecutor(max_workers=jobs) as ex:
        futs = [ex.submit(validate_trace, spec, f, timeout, xmx) for f in files]
        for f in futs:
            out.append(f.result())
    log('validated %d trace files with %s in %.1fs' % (len(files), spec, time.time() - t))
    return out


def cfg_value(v):
    if isinstance(v, bool):
        return 'TRUE' if v else 'FALSE'
    if isinstance(v, str):
        return '"%s"' % v
    if isinstance(v, (set, frozenset, list, tuple)):
        return '{' + ', '.join(cfg_value(x) for x in sorted(v, key=lambda z: (str(type(z)), z))) + '}'
    return str(v)


def mc_run(module, consts, invariants=('NoViolation',), props=(), view='View', workers=4, timeout=1800, export=False, xmx='6g',
           spec='Spec', name=None, constraint=None):
    """run TLC on spec/mc/<module>.tla with a generated cfg; returns stats (+ exported histories when export=True)"""
    name = name or (module + '_' + hashlib.md5(json.dumps(consts, sort_keys=True, default=list).encode()).hexdigest()[:8])
    d = os.path.join(RUN, 'mc')
    os.makedirs(d, exist_ok=True)
    cfg = os.path.join(d, name + '.cfg')
    with open(cfg, 'w') as f:
        f.write('SPECIFICATION %s\nCONSTANTS\n' % spec)
        for k, v in consts.items():
            f.write('  %s = %s\n' % (k, cfg_value(v)))
        for inv in invariants:
            f.write('INVARIANT %s\n' % inv)
        if export == 'steps':
            f.write('ACTION_CONSTRAINT ExportStep\n')
        elif export:
            f.write('INVARIANT Export\n')
        for p_ in props:
            f.write('PROPERTY %s\n' % p_)
        if view:
            f.write('VIEW %s\n' % view)
        if constraint:
            f.write('CONSTRAINT %s\n' % constraint)
        f.write('CHECK_DEADLOCK FALSE\n')
    r = tlc(SPEC + '/mc', module + '.tla', cfg, workers=1 if export else workers, timeout=timeout, xmx=xmx, coverage=False)
    out = r['out']
    r['name'] = name
    r['consts'] = consts
    if 'Parsing or semantic analysis failed' in out or 'Could not find or load' in out:
        raise ToolError('TLC could not load %s: %s' % (module, out[-1500:]))
    r['violated'] = 'is violated' in out or 'Error:' in out
    if r['violated'] or not r['completed']:
        k = out.find('Error:')
        r['error_text'] = out[k:k + 3000] if k >= 0 else out[-3000:]
    if export:
        hists = []
        for line in out.split('\n'):
            if line.startswith('<<"HIST"'):
                m_ = re.match(r'<<"HIST", "(.*)">>$', line.strip())
                if m_:
                    hists.append(json.loads(m_.group(1).encode().decode('unicode_escape')))
        r['hists'] = hists
    del r['out']
    return r


def extract_history(tracefile, h):
    """the events of history h (from its "N" line up to the next "N")"""
    evs = []
    on = False
    with open(tracefile) as f:
        for line in f:
            if '"h":' in line[:24]:
                if on:
                    break
                try:
                    on = json.loads(line).get('h') == h
                except Exception:
                    on = False
            if on:
                evs.append(line.rstrip('\n'))
    return evs


def history_to_plan(lines):
    """recorded history (N/D/L or NE/E events) -> caller plan (stream + per-call chunk end, capacity, last)"""
    evs = [json.loads(l) for l in lines if l.strip() and '"ev":"VIOLATION"' not in l]
    first = evs[0]
    if first['ev'] == 'N':
        stream = []
        pos = 0
        calls = []
        lat = False
        prelen = 0
        for e in evs[1:]:
            if e['ev'] == 'L':
                lat = True
            if e['ev'] != 'D':
                continue
            src = e['src']
            need = pos + len(src)
            if len(stream) < need:
                stream += [0] * (need - len(stream))
            stream[pos:need] = src
            calls.append([need, -1 if e.get('q') else e['cap'], e['last']])
            prelen = len(e.get('pre', []))
            if e['res'] != 'P':
                pos += e['read']
        return {'ev': 'PLAN', 'kind': 'dec', 'h': first.get('h', 0), 'enc': first['enc'], 'mode': first['mode'], 'sink': first['sink'],
                'repl': first['repl'], 'stream': stream, 'calls': calls, 'lat': lat, 'prelen': prelen, 'finish': False}
    if first['ev'] == 'NE':
        units = []
        pos = 0
        ends = []
        prelen = 0
        for e in evs[1:]:
            if e['ev'] != 'E':
                continue
            src = e['src']
            need = pos + len(src)
            if len(units) < need:
                units += [0] * (need - len(units))
            units[pos:need] = src
            ends.append([need, -1 if e.get('q') else e['cap'], e['last']])
            prelen = len(e.get('pre', []))
            if e['res'] != 'P':
                pos += e['read']
        # units -> items with unit offsets
        items = []
        bounds = [0]
        if first['source'] == 'utf8':
            text = bytes(units).decode('utf-8', errors='replace')
            for ch in text:
                items.append(ord(ch))
                bounds.append(bounds[-1] + len(ch.encode('utf-8')))
        else:
            i = 0
            while i < len(units):
                u = units[i]
                if 0xD800 <= u < 0xDC00 and i + 1 < len(units) and 0xDC00 <= units[i + 1] < 0xE000:
                    items.append(0x10000 + ((u - 0xD800) << 10) + (units[i + 1] - 0xDC00))
                    i += 2
                else:
                    items.append(u)
                    i += 1
                bounds.append(i)
        calls = []
        for (e, cap, last) in ends:
            idx = max([k for k, b in enumerate(bounds) if b <= e] or [0])
            calls.append([idx, cap, last])
        return {'ev': 'PLAN', 'kind': 'enc', 'h': first.get('h', 0), 'enc': first['enc'], 'source': first['source'], 'sink': first['sink'],
                'repl': first['repl'], 'stream': items, 'calls': calls, 'prelen': prelen, 'finish': False}
    return None


# ------------------------------------------------------------------------------------------------
# known findings

def load_known():
    p = VERIF + '/known_findings.json'
    if not os.path.exists(p):
        return {'findings': [], 'fixed': []}
    return json.load(open(p))


def match_known(known, prop, tag, hist_events, build='default'):
    """a finding matches by property + tag + a small structural predicate on the history (see known_findings.json)"""
    for k in known.get('findings', []):
        if k['property'] != prop or (k.get('tag') and k['tag'] != tag):
            continue
        m = k.get('match', {})
        ok = True
        first = json.loads(hist_events[0]) if hist_events else {}
        for key, val in m.get('first', {}).items():
            if first.get(key) not in (val if isinstance(val, list) else [val]):
                ok = False
        if 'build' in m and build not in m['build']:
            ok = False
        if ok:
            return k
    return None


# ------------------------------------------------------------------------------------------------
# evidence / reporting

class Report:
    def __init__(self, prop, tier, seed, level='model_checking'):
        self.prop = prop
        self.tier = tier
        self.seed = seed
        self.level = level
        self.t0 = time.time()
        self.violations = []       # (property, tag, replay path)
        self.known_hits = []
        self.cov = {'states': 0, 'transitions': 0, 'traces_validated_against_impl': 0, 'samples': [],
                    'mc_runs': [], 'trace_runs': [], 'exhaustive': False}
        self.assumptions = []
        self.notes = []

    def add_mc(self, name, r, what):
        self.cov['states'] += r.get('distinct', 0)
        self.cov['transitions'] += r.get('generated', 0)
        self.cov['mc_runs'].append({'model': name, 'distinct_states': r.get('distinct', 0), 'states_generated': r.get('generated', 0),
                                    'depth': r.get('depth'), 'wall_s': r['wall_s'], 'what': what})

    def add_trace_results(self, profile, spec, results, rec_stats):
        st = sum(r['states'] for r in results)
        self.cov['states'] += st
        self.cov['transitions'] += sum(r['generated'] for r in results)
        nh = sum(r.get('histories', 0) for r in results)
        self.cov['traces_validated_against_impl'] += nh
        self.cov['trace_runs'].append({'profile': profile, 'spec': spec, 'histories': nh, 'events': sum(r.get('events', 0) for r in results),
                                       'calls_judged': sum(r.get('judged', 0) for r in results), 'files': len(results),
                                       'record_wall_s': rec_stats.get('wall_s')})

    def sample_from(self, tracefile, n=2, maxlen=1200):
        try:
            with open(tracefile) as f:
                lines = []
                for line in f:
                    lines.append(line.strip())
                    if len(lines) >= 400:
                        break
            # take the first n histories that have at least 2 calls
            hist = []
            cur = []
            for l in lines:
                if l.startswith('{"ev":"N"') or l.startswith('{"ev":"NE"'):
                    if len(cur) >= 3:
                        hist.append(cur)
                    cur = []
                cur.append(l[:maxlen])
            for h in hist[:n]:
                self.cov['samples'].append([json.loads(x) if len(x) < maxlen else x for x in h[:8]])
            if not hist:
                for x in lines[:n]:
                    self.cov['samples'].append(json.loads(x) if len(x) < maxlen else x[:maxlen])
        except Exception as e:
            self.notes.append('sample extraction failed: %r' % (e,))

    def write(self):
        os.makedirs(VERIF + '/evidence', exist_ok=True)
        if not self.cov['samples']:
            self.cov['samples'] = ['(no sample extracted)']
        ev = {'property_id': self.prop, 'tier': self.tier, 'seed': self.seed, 'level': self.level,
              'coverage': self.cov, 'assumptions': self.assumptions, 'wall_s': round(time.time() - self.t0, 1),
              'violations': len(self.violations)}
        self.cov['known_findings_hit'] = self.known_hits
        self.cov['notes'] = self.notes
        with open('%s/evidence/%s.json' % (VERIF, self.prop), 'w') as f:
            json.dump(ev, f, indent=1)

    def finish(self):
        self.write()
        for k in self.known_hits:
            print('KNOWN-FINDING: property=%s %s' % (k['property'], k['what']))
        # violations of the property being checked first
        for (p, tag, path) in sorted(self.violations, key=lambda v: (v[0] != self.prop, v[0], v[1])):
            print('VIOLATION property=%s replay=%s tag=%s' % (p, path, tag))
        sys.stdout.flush()
        return 1 if self.violations else 0


# owners of each violation tag: the first entry is the primary property
OWNERS = {
    'C02.prefix': ['C02', 'C01', 'C09'],
    'C10.prefix': ['C10', 'C02', 'C01'],
    'C02.lost': ['C02', 'C01', 'C10'],
    'C05.illformed': ['C05', 'C01', 'C02'],
    'C06.bounds': ['C06'],
    'C06.panic': ['C06', 'C10', 'C02'],
    'C06.guard': ['C06'],
    'C06.fault': ['C06'],
    'C06.inputempty-unconsumed': ['C06', 'C02'],
    'C06.string-content': ['C06'],
    'C06.string-realloc': ['C06'],
    'C01.malformed-range': ['C01'],
    'C09.malformed-with-replacement': ['C09'],
    'C09.had-errors': ['C09', 'C02'],
    'C11.had-errors': ['C11', 'C09'],
    'C11.enc-had-unmappables': ['C11', 'C09'],
    'C09.manual-differs': ['C09'],
    'C09.enc-manual-differs': ['C09'],
    'C10.encoding': ['C10'],
    'C08.noprogress': ['C08'],
    'C08.call-bound': ['C08'],
    'C08.livelock': ['C08'],
    'C07.insufficient': ['C07'],
    'C18.fill-dependent': ['C18', 'C19'],
    'C05.str-invalid': ['C05'],
    'C05.string-invalid': ['C05'],
    'C05.str-after-panic': ['C05'],
    'C04.prefix': ['C04', 'C03', 'C09'],
    'C04.unmappable': ['C04', 'C03'],
    'C04.lost': ['C04', 'C03'],
    'C04.lost-output': ['C04', 'C03'],
    'C04.split-character': ['C04', 'C03'],
    'C04.output-ahead-of-input': ['C04'],
    'C09.had-unmappables': ['C09', 'C04'],
    'C09.unmappable-with-replacement': ['C09'],
    'C12.pending-state': ['C12', 'C04'],
    'C12.not-ascii-at-end': ['C12', 'C03'],
    'C12.undecodable': ['C12', 'C03'],
    'C12.roundtrip': ['C12', 'C03'],
    'C06.enc-panic': ['C06', 'C04'],
    'C06.enc-bounds': ['C06'],
    'C06.enc-inputempty-unconsumed': ['C06', 'C04'],
    'C06.vec-content': ['C06'],
    'C06.vec-realloc': ['C06'],
    'C06.enc-guard': ['C06'],
    'C08.enc-noprogress': ['C08'],
    'C08.enc-call-bound': ['C08'],
    'C08.enc-livelock': ['C08'],
    'C07.enc-insufficient': ['C07'],
    'C18.enc-fill-dependent': ['C18'],
    'C18.mem-fill-dependent': ['C18', 'C15'],
    'C03.sweep-entry': ['C03', 'C12', 'C20'],
    'C03.sweep-missing': ['C03', 'C12', 'C20'],
    'C03.sweep-odd': ['C03', 'C12'],
    'C05.mem-str-invalid': ['C05'],
    'C06.mem-guard': ['C06'],
    'C14.result': ['C14', 'C17'],
    'C11.enc-encoding-used': ['C11', 'C20'],
}


def owner_of(tag, running_prop):
    o = OWNERS.get(tag)
    if o is None:
        m = re.match(r'(C\d\d)\.', tag)
        o = [m.group(1)] if m else [running_prop]
    return running_prop if running_prop in o else o[0]


def handle_trace_violations(rep, results, known=None, build='default'):
    """turn the viol records of trace validation into VIOLATION lines / known findings / tool errors"""
    known = known if known is not None else load_known()
    os.makedirs(RUN + '/replay', exist_ok=True)
    seen = set()
    for r in results:
        for v in r.get('viol', []):
            tag = v['tag']
            if tag.startswith('proto.') or tag.startswith('harness.'):
                raise ToolError('driver/harness protocol error %s in %s history %s' % (tag, r['file'], v.get('h')))
            prop = owner_of(tag, rep.prop)
            evs = extract_history(r['file'], v['h'])
            kf = match_known(known, prop, tag, evs, build)
            if kf:
                if kf['id'] not in [k['id'] for k in rep.known_hits]:
                    rep.known_hits.append({'id': kf['id'], 'property': prop, 'what': kf['what']})
                continue
            key = (prop, tag)
            if key in seen and len(rep.violations) >= 20:
                continue
            seen.add(key)
            path = '%s/replay/%s_%s_h%s.ndjson' % (RUN, prop, tag.replace('.', '-'), v['h'])
            with open(path, 'w') as f:
                f.write('\n'.join(evs) + '\n')
                f.write(json.dumps({'ev': 'VIOLATION', 'tag': tag, 'call': v.get('k'), 'source': os.path.basename(r['file'])}) + '\n')
            rep.violations.append((prop, tag, path))


def seed_tier(argv):
    tier = os.environ.get('VERIF_TIER', 'quick')
    if '--tier' in argv:
        tier = argv[argv.index('--tier') + 1]
    seed = int(os.environ.get('VERIF_SEED', '1') or '1')
    return seed, tier


def clean_dir(d):
    shutil.rmtree(d, ignore_errors=True)
    os.makedirs(d, exist_ok=True)
