#!/usr/bin/env python3
"""seedtest.py <seed dir> <check id> [<check id> ...]  -- apply seeded/<x>/patch.diff to /repo, run the quick checks,
undo the patch straight afterwards, print which checks raised a VIOLATION."""
import subprocess, sys, os, json, time
seed = sys.argv[1]
checks = sys.argv[2:]
patch = os.path.join(seed, 'patch.diff')
st = subprocess.run(['git', '-C', '/repo', 'status', '--porcelain', '--untracked-files=no'], capture_output=True, text=True).stdout.strip()
if st:
    print('repo not clean:', st); sys.exit(2)
r = subprocess.run(['git', '-C', '/repo', 'apply', os.path.abspath(patch)], capture_output=True, text=True)
if r.returncode != 0:
    print('apply failed', r.stderr); sys.exit(2)
res = {}
try:
    for c in checks:
        t = time.time()
        p = subprocess.run(['/verif/check', c, '--tier', os.environ.get('SEED_TIER', 'quick')], capture_output=True, text=True, cwd='/verif')
        viol = [l for l in p.stdout.split('\n') if l.startswith('VIOLATION')]
        res[c] = {'rc': p.returncode, 'violations': viol[:4], 'n': len(viol), 'wall_s': round(time.time() - t)}
        if p.returncode == 2:
            res[c]['err'] = p.stderr[-800:]
        print(c, 'rc=%d' % p.returncode, 'viol=%d' % len(viol), viol[:2], flush=True)
finally:
    subprocess.run(['git', '-C', '/repo', 'checkout', '--', '.'])
json.dump(res, open(os.path.join(seed, 'last_result.json'), 'w'), indent=1)
