#!/bin/bash
# usage: seed_confirm.sh <worktree> <seed dir>   -- confirm a seeded change in a scratch worktree:
# applies to current /repo HEAD, existing suite passes with it, demo fails with it and passes without it.
set -u
WT=$1; SD=$2
HEAD=$(git -C /repo rev-parse HEAD)
cd $WT || exit 2
git checkout -q -- . ; rm -f tests/demo_tmp.rs
git checkout -q --detach $HEAD || exit 2
echo "== apply"; git apply --check $SD/patch.diff && git apply $SD/patch.diff || { echo APPLY-FAILED; exit 1; }
echo "== suite with change"; cargo test --offline --workspace --no-fail-fast 2>&1 | grep -E "^test result|FAILED|panicked|error(\[|:)" | head -8
cp $SD/demo.rs tests/demo_tmp.rs
echo "== demo with change (expect FAIL)"; cargo test --offline --test demo_tmp 2>&1 | grep -E "^test result|error(\[|:)" | head -3
git checkout -q -- src
echo "== demo without change (expect ok)"; cargo test --offline --test demo_tmp 2>&1 | grep -E "^test result|error(\[|:)" | head -3
rm -f tests/demo_tmp.rs
git status --short | grep -v "^??" | head
