#!/usr/bin/env python3
"""Regenerate MANIFEST.json from the table below (single source of truth for the interface file)."""
import json, os, sys
sys.path.insert(0, os.path.dirname(os.path.abspath(__file__)))
import plans

VERIF = os.path.dirname(os.path.dirname(os.path.abspath(__file__)))
props = [json.loads(l) for l in open(VERIF + '/properties.jsonl')]

TV = ('TLA+ specification (Layer S: WHATWG algorithms; Layer C: contract monitor) checked with TLC; bound to the code by trace validation: '
      'call histories recorded from the real API are accepted or rejected by TLC evaluating the monitor')
NOTE = ('Trusted: TLC 1.8.0; the index snapshot under spec/data (from the repository test fixtures and Python codec tables, not src/data.rs); the harness records '
        'arguments/results faithfully. Exhaustive only over the enumerated finite spaces named in the evidence; random elsewhere.')

MC = {
    'C02': 'Layer I (implementation-shaped decoder model, every variant transcribed) x monitor model-checked exhaustively by TLC over class alphabets (invariant NoViolation); one behaviour per reachable state replayed on the real code and compared call by call',
    'C03': 'the inverse tables of the encoder oracle are checked against the forward indexes by TLC (MC_Indexes, InverseCorrect)',
    'C04': 'Layer I (every encoder variant, NCR wrapper) x monitor model-checked exhaustively by TLC; exported behaviours replayed on the real code and compared call by call',
    'C05': 'the zeroing/stripping clean-up of the str sinks model-checked by TLC over every valid old buffer, written prefix and garbage pattern (MC_StrZeroing)',
    'C07': 'Layer I incl. the max_*_buffer_length formulas of decoders and encoders: InvokeQueried in every reachable state model-checked by TLC; on replay the real query answer is compared with the formula',
    'C08': 'liveness on Layer I x monitor: under weak fairness of minimum-capacity calls with last=true TLC proves <>(done) for decoders (MC_DecLive) and encoders (MC_EncLive)',
    'C10': 'Layer I life-cycle automaton (11 states, morphing, pending BOM bytes) x monitor with the BOM-wrapper oracle model-checked exhaustively by TLC; exported behaviours replayed on the real code',
    'C11': 'Layer I of the one-shot API (for_bom, borrow decisions, allocation arithmetic, decode_to_string / encode_from_utf8_to_vec loops with reserve, flag accumulation) judged by the one-shot monitor rule under TLC on every short input over class alphabets; all inputs replayed on the real API and compared',
    'C13': 'Layer I three-phase label scanner model-checked by TLC to equal get-an-encoding on every short string over a class alphabet and around the 19-byte cut-off (MC_Labels)',
    'C19': 'Layer I latin1_byte_compatible_up_to (life-cycle arms, in_neutral_state per variant) asked before every modelled call, judged by the monitor under TLC and compared with the real answer on replay',
}

CHECKS = {
    'C01': ('whole-stream decodes of the real decoders are judged item by item (scalars, absolute error spans, U+FFFD per error) against a TLA+ transcription of the Standard decoders; bounded-exhaustive over all 1-/2-byte strings and class-alphabet 3/4-byte strings', '6 C01'),
    'C02': ('every call of bounded-exhaustive and random call histories must emit a prefix of what the Standard decoder (fed with the presented bytes) has determined, lose nothing at end of stream and report the same absolute spans: chunking independence by construction of the monitor', '6 C02'),
    'C03': ('every scalar alone through every encoder (set equality with the spec), all ordered pairs over class alphabets, random texts; judged against a TLA+ transcription of the Standard encoders with declaratively checked inverse indexes', '6 C03'),
    'C04': ('two-sided prefix rule on every call of bounded-exhaustive and random encoder histories; UTF-8 and UTF-16 sources judged against the same oracle; split surrogate pairs are violations', '6 C04'),
    'C05': ('whole destination of decode_to_str*/decode_to_string* validated by the spec UTF-8 definition after every call of cut-set histories with multi-byte fillers; written prefix validated on every call', '6 C05'),
    'C06': ('contract clauses of every call event (bounds, InputEmpty, no panic at documented minimum, String/Vec identity, canary bands) as monitor conjuncts over random, BOM-matrix and deep exhaustive histories; buffers flush against PROT_NONE guard pages in child processes (a fault is a monitor violation); UB without observable effect inside mapped memory is a declared residual', '6 C06'),
    'C07': ('every call issued with dst.len() equal to the real query answer in every state reached by cut-set and BOM-matrix histories; OutputFull is a violation', '6 C07'),
    'C08': ('documented caller loop at minimum capacities on all cut sets of short streams/texts and deep exhaustive streams: zero-progress call, call bound 4n+16 and non-termination are monitor violations', '6 C08'),
    'C09': ('with-replacement methods judged against the Standard items with U+FFFD / NCR substitution and exact had_errors / had_unmappables per call; every call also given to a twin converter driven by the documented manual procedure over the without-replacement method, identical observation demanded by the monitor', '6 C09'),
    'C10': ('BOM wrapper of the Standard (sniff / remove / off) in TLA+; exhaustive matrix of prefixes x cut sets x modes x capacities for all 40 encodings validated call by call, encoding() checked at every call', '6 C10'),
    'C12': ('Standard decoder of the same encoding run by the monitor over the encoder output after every call (no error, round trip modulo the fold set, pending-state flag, ASCII at end)', '6 C12'),
    'C18': ('three converters in lockstep with different destination pre-fills; equality of observations is a monitor conjunct on every call', '6 C18'),
    'C11': ('one-shot decode/encode events for all 40 encodings judged by the spec (BOM wrapper + Standard decode/encode with replacement, None iff malformed, borrow promise, aliasing); ASCII runs of every length 0..130 and large; streaming twin compared', '6 C11'),
    'C13': ('get-an-encoding transcribed in TLA+ from the label fixture; every recorded for_label answer judged; single-edit neighbourhoods by set equality, case masks, paddings, cut-off strings, random strings', '6 C13'),
    'C14': ('validators judged against TLA+ definitions of the longest valid prefix on recipe inputs (fills x lengths x defect classes x positions) at 16 alignments, with the SIMD validator on, forced off (hook) and in the simd-accel build', '6 C14'),
    'C15': ('every mem conversion judged against the definitional result (lossy / None / partial-maximal / unmodified-beyond-written) on recipe inputs and destination lengths, default and simd-accel builds', '6 C15'),
    'C16': ('classification and bidi checks judged against per-character definitions; is_char_bidi / is_utf16_code_unit_bidi exhaustively as exact range lists; default and simd-accel builds', '6 C16'),
    'C17': ('Lockstep spec: one observer per build configuration on a deterministic corpus; TLC checks that all observation digests of each case are equal', '6 C17'),
    'C20': ('metadata flags vs truth computed by TLC from Layer S and vs exhaustive sweeps of the same build; equality/hash matrices; name() resolves to self', '6 C20'),
    'C19': ('latin1_byte_compatible_up_to asked between calls of BOM-matrix / cut-set / random histories and judged against the Standard decoder state at the consumed position; twins without queries must agree', '6 C19'),
}

m = {
    'version': 1,
    'setup_cmd': './check setup',
    'hooks': {
        'guard': 'hsivonen_encoding_rs_verif',
        'enable': 'cargo feature hsivonen_encoding_rs_verif of encoding_rs (harness built with --features hooks, run with --force-scalar); used by C14 and C17 only, all other checks use the public API without hooks',
        'baseline_off_cmd': 'cd /repo && cargo test --workspace --no-fail-fast --offline',
        'source_commits': ['c9f6364'],
        'add_only': True,
    },
    'engines': [
        {'name': 'tlc-trace-validation', 'path': 'spec/trace', 'serves_properties': sorted(CHECKS), 'kind_free_text': 'TLC evaluating TLA+ monitors (spec/api) over ndjson traces recorded from the real code by harness/'},
        {'name': 'tlc-model-checking', 'path': 'spec/mc', 'serves_properties': sorted(MC), 'kind_free_text': 'TLC exhaustive exploration of the implementation-shaped model composed with the monitors'},
    ],
    'checks': [],
    'notes': 'See DESIGN.md. ./check <id> [--tier quick|thorough]; ./check replay <file> re-drives a recorded history on the current tree.',
    'not_applicable': [],
}
for p in props:
    pid = p['id']
    if pid in CHECKS and pid in plans.PLANS:
        text, ref = CHECKS[pid]
        m['checks'].append({
            'property_id': pid,
            'quick_cmd': './check %s --tier quick' % pid,
            'thorough_cmd': './check %s --tier thorough' % pid,
            'evidence_file': 'evidence/%s.json' % pid,
            'replay_cmd_template': './check replay {path}',
            'engine': 'tlc-trace-validation',
            'level_claimed': {'category': 'model_checking', 'text': text, 'design_ref': 'DESIGN.md section ' + ref},
            'level_note': NOTE,
            'technique': TV + ('; ' + MC[pid] if pid in MC else ''),
        })
    else:
        m['not_applicable'].append({'property_id': pid, 'reason': 'check not built yet (work in progress; see DESIGN.md section 10) - no claim is made'})
json.dump(m, open(VERIF + '/MANIFEST.json', 'w'), indent=1)
print('checks', len(m['checks']), 'not_applicable', len(m['not_applicable']))
