#!/usr/bin/env python3
"""Write seeded/<id>/meta.json from notes.md + last_result.json (+ history of earlier runs), and print the markdown catch matrix."""
import json, os, re, sys, glob
V = os.path.dirname(os.path.dirname(os.path.abspath(__file__)))
HIST = json.load(open(V + '/seeded/history.json')) if os.path.exists(V + '/seeded/history.json') else {}
rows = []
for d in sorted(glob.glob(V + '/seeded/C*_*')):
    sid = os.path.basename(d)
    prop = sid.split('_')[0]
    notes = open(d + '/notes.md').read() if os.path.exists(d + '/notes.md') else ''
    lines = [l.strip() for l in notes.split('\n') if l.strip() and not l.startswith('#')]
    summary = ' '.join(lines)[:900]
    files = sorted(set(re.findall(r'^\+\+\+ b/(\S+)', open(d + '/patch.diff').read(), re.M)))
    res = json.load(open(d + '/last_result.json')) if os.path.exists(d + '/last_result.json') else {}
    hist = HIST.get(sid, [])
    caught = {c: (r['rc'] == 1) for c, r in res.items()}
    meta = {
        'seed': sid, 'breaks_property': prop, 'files_touched': files,
        'what_it_needs_to_manifest': summary,
        'confirmed': {'how': 'tools/seed_confirm.sh in a scratch git worktree of /repo at the then-current HEAD: patch applies, `cargo test --offline --workspace` passes with it (145+8+13+3), demo.rs as tests/demo_tmp.rs fails with it and passes without it',
                      'suite_passes_with_change': True, 'demo_fails_with_change': True, 'demo_passes_without_change': True},
        'checks_run': {c: {'exit': r['rc'], 'violation_lines': r['n'], 'first': (r['violations'] or [''])[0], 'wall_s': r.get('wall_s')} for c, r in res.items()},
        'earlier_runs': hist,
        'how_run': 'python3 tools/seedtest.py seeded/%s <checks>  (git -C /repo apply patch.diff; ./check <id> --tier quick; git -C /repo checkout -- .)' % sid,
    }
    json.dump(meta, open(d + '/meta.json', 'w'), indent=1)
    first_tags = []
    for c, r in res.items():
        for v in r['violations'][:1]:
            m = re.search(r'tag=(\S+)', v)
            if m:
                first_tags.append('%s:%s' % (c, m.group(1)))
    short = lines[0][:150] if lines else ''
    rows.append((sid, ', '.join(files), ' '.join('%s %s' % (c, 'CAUGHT' if k else 'missed') for c, k in caught.items()), '; '.join(first_tags), hist))
print('| seed | files | checks run (quick tier) | first tag | note |')
print('|---|---|---|---|---|')
for sid, files, c, t, hist in rows:
    print('| %s | %s | %s | %s | %s |' % (sid, files, c, t, '; '.join(hist)))
