"""Per-property check plans: which traces are recorded from the real code, which TLA+ trace spec
validates them, and which TLC model-checking runs of the specification accompany them."""
import json, os, sys, time
from vlib import *

# spec used for each harness profile
PROFILE_SPEC = {
    'dec-whole': 'TraceDec', 'dec-cutsets': 'TraceDec', 'dec-random': 'TraceDec', 'dec-bom': 'TraceDec',
    'dec-replay': 'TraceDec', 'dec-deep': 'TraceDec',
    'enc-sweep': 'TraceEnc', 'enc-pairs': 'TraceEnc', 'enc-cutsets': 'TraceEnc', 'enc-random': 'TraceEnc', 'enc-replay': 'TraceEnc',
}


def record_and_validate(rep, binp, profile, seed, tier, extra=(), shards=None, build='default'):
    outdir = '%s/%s/%s' % (RUN, rep.prop, profile)
    clean_dir(outdir)
    st = run_profile(binp, profile, outdir, seed, tier, shards=shards, extra=extra)
    spec = PROFILE_SPEC[profile]
    results = validate_traces(spec, st['files'])
    rep.add_trace_results(profile, spec, results, st)
    if st['files']:
        rep.sample_from(st['files'][0], n=1)
    handle_trace_violations(rep, results)
    return results


def dev(profile, spec, extra, seed, tier):
    binp = build_harness('default')
    rep = Report('DEV', tier, seed)
    outdir = '%s/dev/%s' % (RUN, profile)
    clean_dir(outdir)
    st = run_profile(binp, profile, outdir, seed, tier, extra=extra)
    results = validate_traces(spec, st['files'])
    from collections import Counter
    c = Counter()
    ex = {}
    for r in results:
        for v in r['viol']:
            c[v['tag']] += 1
            ex.setdefault(v['tag'], (r['file'], v))
    print('histories', sum(r['histories'] for r in results), 'judged', sum(r['judged'] for r in results), 'events',
          sum(r['events'] for r in results))
    for t, n in c.most_common():
        f, v = ex[t]
        print('==', t, n, 'e.g. h=%s k=%s in %s' % (v['h'], v['k'], os.path.basename(f)))
        for l in extract_history(f, v['h'])[:12]:
            print('    ', l[:400])
    return 0


def replay(path):
    """re-drive the caller plan of a recorded history on the real code built from /repo's working tree and
    validate the fresh trace with the trace spec"""
    lines = [l for l in open(path).read().split('\n') if l.strip()]
    meta = None
    if lines and '"ev":"VIOLATION"' in lines[-1]:
        meta = json.loads(lines[-1])
        lines = lines[:-1]
    first = json.loads(lines[0])
    plan = first if first.get('ev') == 'PLAN' else history_to_plan(lines)
    if plan is None:
        # aggregate events (sweeps) are re-recorded by re-running the owning check
        print('this replay file holds an aggregate event; re-run the owning check to reproduce it')
        for l in lines[:3]:
            print('   ', l[:300])
        return 2
    kind = plan['kind']
    outdir = RUN + '/replay/_tmp'
    clean_dir(outdir)
    src = outdir + '/plan.ndjson'
    open(src, 'w').write(json.dumps(plan) + '\n')
    binp = build_harness('default')
    st = run_profile(binp, kind + '-replay', outdir, 1, 'quick', shards=1, extra=['--in', src])
    r = validate_trace(PROFILE_SPEC[kind + '-replay'], st['files'][0])
    print(json.dumps({'recorded': meta, 'revalidated_viol': r['viol']}, indent=1))
    for l in open(st['files'][0]):
        print('   ', l.strip()[:300])
    if r['viol']:
        print('VIOLATION property=%s replay=%s tag=%s' % (owner_of(r['viol'][0]['tag'], 'C00'), path, r['viol'][0]['tag']))
    return 1 if r['viol'] else 0


COMMON_ASSUMPTIONS = [
    'index data = snapshot under spec/data derived from the repository test fixtures and Python codec tables (DESIGN.md 3.1)',
    'TLC 1.8.0 evaluates the TLA+ definitions correctly; the Rust harness records arguments and results faithfully',
]


def rv(rep, binp, profile, seed, tier, extra=(), tag=None, shards=None):
    """record profile (with overrides) into its own directory and validate"""
    outdir = '%s/%s/%s' % (RUN, rep.prop, tag or profile)
    clean_dir(outdir)
    st = run_profile(binp, profile, outdir, seed, tier, shards=shards, extra=extra)
    spec = PROFILE_SPEC[profile]
    results = validate_traces(spec, st['files'])
    rep.add_trace_results((tag or profile) + (' ' + ' '.join(extra) if extra else ''), spec, results, st)
    if st['files']:
        rep.sample_from(st['files'][len(st['files']) // 2], n=1)
    handle_trace_violations(rep, results)
    return results


def plan_C01(rep, seed, tier):
    binp = build_harness('default')
    rv(rep, binp, 'dec-whole', seed, tier, shards=32 if tier == 'thorough' else 16)
    rep.cov['rule'] = ('whole-stream decodes through decode_to_utf8/utf16 with and without replacement: every 1-byte string x 40 encodings x 4 forms; '
                       'every 2-byte string for the 12 multi-byte/stateful encodings (+ seed-rotated single-byte ones; all 40 in thorough); '
                       'all 3/4-byte strings over per-encoding class alphabets; EUC-JP 8F xx yy, gb18030 four-byte range pointers; seeded grammar strings')


def plan_C02(rep, seed, tier):
    binp = build_harness('default')
    rv(rep, binp, 'dec-cutsets', seed, tier, shards=32 if tier == 'thorough' else 16)
    rv(rep, binp, 'dec-random', seed, tier)
    rv(rep, binp, 'dec-deep', seed, tier, shards=32 if tier == 'thorough' else 16)
    rep.cov['rule'] = ('all cut sets of every stream of length <= 3 (thorough: 4, plus seeded 5..7) over the per-encoding class alphabet x capacities min..min+3 and 64 '
                       'x 4 sinks x replacement x empty final call; seeded random histories with re-cuts, empty calls and queried capacities')


def plan_C03(rep, seed, tier):
    binp = build_harness('default')
    rv(rep, binp, 'enc-sweep', seed, tier, shards=32)
    rv(rep, binp, 'enc-pairs', seed, tier)
    rep.cov['exhaustive'] = tier == 'thorough'
    rep.cov['rule'] = ('every scalar value alone through every encoder from UTF-8 and UTF-16 (BMP exhaustive; astral stride 16 in quick, exhaustive in thorough), '
                       'set equality of the mapped list with the spec; every ordered pair over a 40-scalar class alphabet (+ lone surrogates) as whole texts; seeded random texts')


def plan_C04(rep, seed, tier):
    binp = build_harness('default')
    rv(rep, binp, 'enc-cutsets', seed, tier, shards=32 if tier == 'thorough' else 16)
    rv(rep, binp, 'enc-random', seed, tier)
    rep.cov['rule'] = ('all cut sets of every text of length <= 3 (thorough: 4) over per-encoder scalar alphabets x capacities around check_space thresholds '
                       'and NCR_EXTRA x both sources x slice/Vec x replacement; seeded random histories')


def plan_C05(rep, seed, tier):
    binp = build_harness('default')
    rv(rep, binp, 'dec-cutsets', seed, tier, extra=['--sinks', 'str,string'], tag='dec-cutsets-str')
    rv(rep, binp, 'dec-random', seed, tier, extra=['--sinks', 'str,string,utf8,utf16'], tag='dec-random-allsinks')
    rep.cov['rule'] = ('decode_to_str* / decode_to_string* on all cut sets of short class-alphabet streams: destination pre-filled with valid text of 1..4-byte '
                       'characters, whole destination validated after every call (also after the panic of a reused finished decoder); written prefix validated on every call of every sink')


def plan_C06(rep, seed, tier):
    binp = build_harness('default')
    rv(rep, binp, 'dec-random', seed, tier, extra=['--twins'], tag='dec-random')
    rv(rep, binp, 'enc-random', seed, tier, extra=['--twins'], tag='enc-random')
    rv(rep, binp, 'dec-bom', seed, tier, extra=['--thin', '6' if tier == 'quick' else '2', '--cap', 'min'], tag='dec-bom-min')
    rv(rep, binp, 'dec-deep', seed, tier, shards=32 if tier == 'thorough' else 16)
    rep.cov['rule'] = ('contract clauses (read <= src, written <= dst, InputEmpty => all consumed, no panic at documented minimum sizes, String/Vec keep pointer, capacity, '
                       'old contents, canary bands intact) on every call of random decoder/encoder histories and of the BOM matrix at minimum capacity')


def plan_C07(rep, seed, tier):
    binp = build_harness('default')
    rv(rep, binp, 'dec-cutsets', seed, tier, extra=['--cap', 'query', '--sinks', 'utf8,utf16'], tag='dec-cutsets-query')
    rv(rep, binp, 'dec-bom', seed, tier, extra=['--cap', 'query', '--thin', '4' if tier == 'quick' else '1'], tag='dec-bom-query')
    rv(rep, binp, 'enc-cutsets', seed, tier, extra=['--cap', 'query'], tag='enc-cutsets-query')
    rep.cov['rule'] = ('every call of the cut-set / BOM-matrix histories is issued with dst.len() == the value the matching max_*_buffer_length query returns on '
                       'the same converter in its current state for the number of units passed; OutputFull is a violation')


def plan_C08(rep, seed, tier):
    binp = build_harness('default')
    rv(rep, binp, 'dec-cutsets', seed, tier, extra=['--cap', 'min'], tag='dec-cutsets-min')
    rv(rep, binp, 'dec-random', seed, tier, extra=['--cap', 'min'], tag='dec-random-min')
    rv(rep, binp, 'enc-cutsets', seed, tier, extra=['--cap', 'min'], tag='enc-cutsets-min')
    rv(rep, binp, 'enc-random', seed, tier, extra=['--cap', 'min1'], tag='enc-random-min1')
    rv(rep, binp, 'dec-deep', seed, tier, extra=['--thin', '2'] if tier == 'quick' else [], tag='dec-deep')
    rep.cov['rule'] = ('the documented caller loop with minimum (and minimum+1) capacities on all cut sets of short streams/texts and on seeded long ones; '
                       'zero-progress OutputFull, more than 4*units+16 calls, or no termination within 8*units+64 calls is a violation')


def plan_C09(rep, seed, tier):
    binp = build_harness('default')
    rv(rep, binp, 'dec-cutsets', seed, tier, extra=['--repl', 'on', '--sinks', 'utf8,utf16'], tag='dec-cutsets-repl')
    rv(rep, binp, 'enc-cutsets', seed, tier, extra=['--repl', 'on'], tag='enc-cutsets-repl')
    rv(rep, binp, 'dec-random', seed, tier, extra=['--repl', 'on'], tag='dec-random-repl')
    rep.cov['rule'] = ('with-replacement methods on cut-set and random histories: output = Standard items with one U+FFFD per error item / one NCR per unmappable atom, '
                       'had_errors / had_unmappables = an error item / NCR atom was emitted in that call (the monitor aligns output with the Standard item by item); '
                       'the without-replacement twin histories are validated by the same monitor in C02/C04')


def plan_C10(rep, seed, tier):
    binp = build_harness('default')
    rv(rep, binp, 'dec-bom', seed, tier, shards=32, extra=['--thin', '2'] if tier == 'quick' else [])
    rep.cov['rule'] = ('40 nominal encodings x 3 BOM modes x every prefix of length 0..3 over {EF,BB,BF,FE,FF,41,80} x 5 tails x all cut sets of the first 4 bytes '
                       'x capacities min..min+2 and 64 x both raw sinks x replacement x empty final call')


def plan_C12(rep, seed, tier):
    binp = build_harness('default')
    rv(rep, binp, 'enc-pairs', seed, tier)
    rv(rep, binp, 'enc-random', seed, tier, extra=['--repl', 'on'], tag='enc-random-repl')
    rep.cov['rule'] = ('after every encode call: Standard decoder of the same encoding over all bytes so far reports no error, decodes to the input modulo the fold set, '
                       'has_pending_state() = state implied by the emitted escapes, ASCII state at the end')


def plan_C18(rep, seed, tier):
    binp = build_harness('default')
    rv(rep, binp, 'dec-cutsets', seed, tier, extra=['--twins', '--thin', '2' if tier == 'quick' else '1'], tag='dec-cutsets-twins')
    rv(rep, binp, 'enc-cutsets', seed, tier, extra=['--twins', '--thin', '2' if tier == 'quick' else '1'], tag='enc-cutsets-twins')
    rv(rep, binp, 'dec-random', seed, tier, extra=['--twins'], tag='dec-random-twins')
    rep.cov['rule'] = ('every call executed on three converters in lockstep with the destination (incl. String/Vec spare capacity) pre-filled 0x00 / 0xFF / 0xA5; '
                       'return tuples and dst[..written] must be identical')


def plan_C19(rep, seed, tier):
    binp = build_harness('default')
    rv(rep, binp, 'dec-bom', seed, tier, extra=['--latin1', '--twins', '--thin', '4' if tier == 'quick' else '1'], tag='dec-bom-latin1')
    rv(rep, binp, 'dec-random', seed, tier, extra=['--latin1', '--twins'], tag='dec-random-latin1')
    rv(rep, binp, 'dec-cutsets', seed, tier, extra=['--latin1', '--twins', '--thin', '2' if tier == 'quick' else '1'], tag='dec-cutsets-latin1')
    rep.cov['rule'] = ('latin1_byte_compatible_up_to asked before every call of BOM-matrix, cut-set and random histories (mid-sequence, BOM pending, after OutputFull / Malformed), '
                       'judged against the Standard decoder state at the consumed position; twins without the queries must produce identical results')


PLANS = {
    'C01': plan_C01, 'C02': plan_C02, 'C03': plan_C03, 'C04': plan_C04, 'C05': plan_C05, 'C06': plan_C06, 'C07': plan_C07,
    'C08': plan_C08, 'C09': plan_C09, 'C10': plan_C10, 'C12': plan_C12, 'C18': plan_C18, 'C19': plan_C19,
}


def run_plan(prop, seed, tier):
    rep = Report(prop, tier, seed)
    rep.assumptions = list(COMMON_ASSUMPTIONS)
    clean_dir('%s/%s' % (RUN, prop))
    PLANS[prop](rep, seed, tier)
    return rep.finish()
