"""Per-property check plans: which traces are recorded from the real code, which TLA+ trace spec
validates them, and which TLC model-checking runs of the specification accompany them."""
import json, os, sys, time
from vlib import *

# spec used for each harness profile
PROFILE_SPEC = {
    'dec-whole': 'TraceDec', 'dec-cutsets': 'TraceDec', 'dec-random': 'TraceDec', 'dec-bom': 'TraceDec',
    'dec-replay': 'TraceDec', 'dec-deep': 'TraceDec',
    'mem': 'TraceMem',
    'query-overflow': 'TraceMisc',
    'labels': 'TraceMisc', 'oneshot': 'TraceMisc', 'oneshot-replay': 'TraceMisc', 'oneshot-enc-replay': 'TraceMisc', 'meta': 'TraceMisc', 'forbom': 'TraceMisc',
    'enc-sweep': 'TraceEnc', 'enc-pairs': 'TraceEnc', 'enc-cutsets': 'TraceEnc', 'enc-random': 'TraceEnc', 'enc-replay': 'TraceEnc',
}


def record_and_validate(rep, binp, profile, seed, tier, extra=(), shards=None, build='default'):
    outdir = '%s/%s/%s' % (RUN, rep.prop, profile)
    clean_dir(outdir)
    st = run_profile(binp, profile, outdir, seed, tier, shards=shards, extra=extra)
    spec = PROFILE_SPEC[profile]
    results = validate_traces(spec, st['files'])
    rep.add_trace_results(profile, spec, results, st)
    if st['files']:
        rep.sample_from(st['files'][0], n=1)
    handle_trace_violations(rep, results)
    return results


def selftest(seed):
    """demonstrate the binding: re-emit valid recorded traces with one field perturbed - each must be rejected"""
    import random
    binp = build_harness('default')
    rnd = random.Random(seed)
    outdir = RUN + '/selftest'
    clean_dir(outdir)
    ok = True
    table = []

    def run(kind, profile, spec, muts, marker, more=()):
        nonlocal ok
        d = '%s/%s%s' % (outdir, profile, '_m' if more else '')
        st = run_profile(binp, profile, d, seed, 'quick', shards=1, extra=['--only', 'Big5,ISO-2022-JP,windows-1252,UTF-8,UTF-16LE,gb18030'] + list(more))
        lines = open(st['files'][0]).read().strip().split('\n')[:6000]
        base = validate_trace(spec, st['files'][0])
        if base['viol']:
            raise ToolError('selftest base trace has violations')
        for name, f in muts:
            idx = [i for i, l in enumerate(lines) if l.startswith(marker)]
            rnd.shuffle(idx)
            done = None
            for i in idx:
                e = json.loads(lines[i])
                before = json.dumps(e)
                f(e)
                if json.dumps(e) != before:
                    done = (i, e)
                    break
            if done is None:
                table.append((kind, name, 'no applicable event'))
                continue
            ls = list(lines)
            ls[done[0]] = json.dumps(done[1], separators=(',', ':'))
            p_ = '%s/mut_%s_%s.ndjson' % (outdir, kind, name.replace(' ', '_'))
            open(p_, 'w').write('\n'.join(ls) + '\n')
            r = validate_trace(spec, p_)
            tags = sorted(set(v['tag'] for v in r['viol']))
            table.append((kind, name, ','.join(tags) or 'ACCEPTED'))
            if not tags:
                ok = False

    dec_muts = [
        ('written unit flipped', lambda e: e['out'].__setitem__(0, e['out'][0] ^ 1) if e['out'] and e['out'][0] < 0x7F else None),
        ('ma+1', lambda e: e.__setitem__('ma', e['ma'] + 1) if e['res'] == 'M' else None),
        ('ml+1', lambda e: e.__setitem__('ml', e['ml'] + 1) if e['res'] == 'M' else None),
        ('dropped output unit', lambda e: (e['out'].pop(), e.__setitem__('written', e['written'] - 1)) if e['out'] and e['out'][-1] < 0x80 else None),
        ('InputEmpty->OutputFull at end', lambda e: e.__setitem__('res', 'O') if e['res'] == 'I' and e['last'] and e['read'] == 0 and e['written'] == 0 and e['cap'] >= 4 else None),
        ('encoding() changed', lambda e: e.__setitem__('enc', 'UTF-8' if e['enc'] != 'UTF-8' else 'Big5')),
        ('written > cap', lambda e: e.__setitem__('cap', e['written'] - 1) if e['written'] > 0 else None),
        ('guard band damaged', lambda e: e.__setitem__('guard', False)),
        ('panic', lambda e: e.__setitem__('res', 'P') if e['cap'] >= 4 else None),
        ('Malformed->InputEmpty', lambda e: (e.__setitem__('res', 'I'), e.__setitem__('ml', 0), e.__setitem__('ma', 0)) if e['res'] == 'M' and e['read'] == len(e['src']) else None),
    ]
    enc_muts = [
        ('written byte flipped', lambda e: e['out'].__setitem__(0, e['out'][0] ^ 1) if e['out'] else None),
        ('unmappable char changed', lambda e: e.__setitem__('um', e['um'] + 1) if e['res'] == 'U' else None),
        ('dropped output byte', lambda e: (e['out'].pop(), e.__setitem__('written', e['written'] - 1)) if e['out'] else None),
        ('has_pending_state flipped', lambda e: e.__setitem__('pending', not e['pending'])),
        ('read inside a character', lambda e: e.__setitem__('read', e['read'] - 1) if e['read'] > 1 and e['res'] == 'O' and any(u > 0x7F for u in e['src'][:e['read']]) else None),
        ('Unmappable->InputEmpty', lambda e: (e.__setitem__('res', 'I'), e.__setitem__('um', 0)) if e['res'] == 'U' and e['read'] == len(e['src']) else None),
    ]
    run('dec', 'dec-random', 'TraceDec', dec_muts, '{"ev":"D"')
    run('enc', 'enc-random', 'TraceEnc', enc_muts, '{"ev":"E"')
    man_dec = [
        ('manual twin: one U+FFFD fewer', lambda e: (e['man']['out'].pop(), e['man'].__setitem__('written', e['man']['written'] - 1)) if e.get('man', {}).get('had') else None),
        ('manual twin: flag differs', lambda e: e['man'].__setitem__('had', not e['man']['had']) if 'man' in e else None),
    ]
    man_enc = [
        ('manual twin: NCR digit differs', lambda e: e['man']['out'].__setitem__(-2, e['man']['out'][-2] ^ 1) if e.get('man', {}).get('had') and e['man']['out'][-1] == 59 else None),
        ('manual twin: flag differs', lambda e: e['man'].__setitem__('had', not e['man']['had']) if 'man' in e else None),
    ]
    run('dec', 'dec-random', 'TraceDec', man_dec, '{"ev":"D"', more=['--repl', 'on', '--sinks', 'utf8,utf16', '--manual'])
    run('enc', 'enc-random', 'TraceEnc', man_enc, '{"ev":"E"', more=['--repl', 'on', '--manual'])
    for row in table:
        print('%-4s %-34s -> %s' % row)
    print('SELFTEST', 'ok: every perturbed trace was rejected' if ok else 'FAILED: a perturbed trace was accepted')
    return 0 if ok else 1


def devmc(argv):
    """./check devmc Enc Mode Sink Repl MaxPend caps(csv) alphabet(csv)"""
    binp = build_harness('default')
    rep = Report('DEVMC', 'quick', 1)
    consts = dict(EncName=argv[0], ModeName=argv[1], SinkName=argv[2], Repl=argv[3] == 'true', MaxPend=int(argv[4]),
                  Caps=[int(x) for x in argv[5].split(',')], Alphabet=[int(x, 0) for x in argv[6].split(',')])
    mc_and_replay(rep, binp, 'MC_Dec', consts, 'dev')
    print(json.dumps(rep.cov['mc_runs'], indent=1)[:3000])
    for v in rep.violations:
        print('VIOLATION', v)
    for n in rep.notes:
        print('NOTE', n[:1500])
    return 0


def dev(profile, spec, extra, seed, tier):
    binp = build_harness(os.environ.get('VERIF_BUILD', 'default'))
    rep = Report('DEV', tier, seed)
    outdir = '%s/dev/%s' % (RUN, profile)
    clean_dir(outdir)
    st = run_profile(binp, profile, outdir, seed, tier, extra=extra)
    results = validate_traces(spec, st['files'])
    from collections import Counter
    c = Counter()
    ex = {}
    for r in results:
        for v in r['viol']:
            c[v['tag']] += 1
            ex.setdefault(v['tag'], (r['file'], v))
    print('histories', sum(r['histories'] for r in results), 'judged', sum(r['judged'] for r in results), 'events',
          sum(r['events'] for r in results))
    for t, n in c.most_common():
        f, v = ex[t]
        print('==', t, n, 'e.g. h=%s k=%s in %s' % (v['h'], v['k'], os.path.basename(f)))
        for l in extract_history(f, v['h'])[:12]:
            print('    ', l[:400])
    return 0


def replay(path):
    """re-drive the caller plan of a recorded history on the real code built from /repo's working tree and
    validate the fresh trace with the trace spec"""
    lines = [l for l in open(path).read().split('\n') if l.strip()]
    meta = None
    if lines and '"ev":"VIOLATION"' in lines[-1]:
        meta = json.loads(lines[-1])
        lines = lines[:-1]
    first = json.loads(lines[0])
    plan = first if first.get('ev') == 'PLAN' else history_to_plan(lines)
    if plan is None:
        # aggregate events (sweeps) are re-recorded by re-running the owning check
        print('this replay file holds an aggregate event; re-run the owning check to reproduce it')
        for l in lines[:3]:
            print('   ', l[:300])
        return 2
    kind = plan['kind']
    outdir = RUN + '/replay/_tmp'
    clean_dir(outdir)
    src = outdir + '/plan.ndjson'
    open(src, 'w').write(json.dumps(plan) + '\n')
    binp = build_harness('default')
    st = run_profile(binp, kind + '-replay', outdir, 1, 'quick', shards=1, extra=['--in', src])
    r = validate_trace(PROFILE_SPEC[kind + '-replay'], st['files'][0])
    print(json.dumps({'recorded': meta, 'revalidated_viol': r['viol']}, indent=1))
    for l in open(st['files'][0]):
        print('   ', l.strip()[:300])
    if r['viol']:
        print('VIOLATION property=%s replay=%s tag=%s' % (owner_of(r['viol'][0]['tag'], 'C00'), path, r['viol'][0]['tag']))
    return 1 if r['viol'] else 0


COMMON_ASSUMPTIONS = [
    'index data = snapshot under spec/data derived from the repository test fixtures and Python codec tables (DESIGN.md 3.1)',
    'TLC 1.8.0 evaluates the TLA+ definitions correctly; the Rust harness records arguments and results faithfully',
]


# events of each profile at tier thorough without thinning (measured; recording is fast, validation runs at about
# 130 k events/s over 16 TLC instances on the idle box as long as one trace file holds <= ~300 k events - a TLC
# instance keeps its whole file in memory).  In the thorough tier every recorded run is thinned (pseudo-randomly,
# by seed) to at most `budget` events and sharded finely, so that a thorough check takes tens of minutes, not
# hours, and stays within the disk budget (dec-bom alone would be 9 GB of trace).
FULL_EVENTS = {'dec-whole': 8.8e6, 'dec-cutsets': 42.2e6, 'dec-bom': 76.3e6, 'dec-deep': 52.6e6, 'enc-cutsets': 30.6e6}
THOROUGH_BUDGET = 20e6


def rv(rep, binp, profile, seed, tier, extra=(), tag=None, shards=None, build='default', budget=None):
    """record profile (with overrides) into its own directory and validate"""
    outdir = '%s/%s/%s' % (RUN, rep.prop, tag or profile)
    clean_dir(outdir)
    if tier == 'thorough' and profile in FULL_EVENTS:
        extra = list(extra)
        thin = 1
        if '--thin' in extra:
            i = extra.index('--thin')
            thin = int(extra[i + 1])
            del extra[i:i + 2]
        need = int(-(-FULL_EVENTS[profile] // (budget or THOROUGH_BUDGET)))
        thin = max(thin, need)
        if thin > 1:
            extra += ['--thin', str(thin)]
        shards = max(shards or 16, int(FULL_EVENTS[profile] / thin / 280e3) + 1)
    st = run_profile(binp, profile, outdir, seed, tier, shards=shards, extra=extra)
    spec = PROFILE_SPEC[profile]
    results = validate_traces(spec, st['files'])
    rep.add_trace_results((tag or profile) + (' ' + ' '.join(extra) if extra else ''), spec, results, st)
    if st['files']:
        rep.sample_from(st['files'][len(st['files']) // 2], n=1)
    handle_trace_violations(rep, results, build=build)
    return results


def mc_and_replay(rep, binp, module, consts, what, kind='dec', workers=4, r=None):
    """TLC exhaustive on Layer I x monitor (design-level result), then spec -> impl: one exported behaviour per distinct
    reachable state is re-driven on the real code, validated by the monitor (violations are fatal) and compared call by
    call with the model's prediction (differences are MODEL-DRIFT notes, never alarms)."""
    if r is None:
        r = mc_run(module, consts, export=True, workers=workers)
    rep.add_mc(r['name'], r, what)
    run = rep.cov['mc_runs'][-1]
    run['consts'] = {k: (sorted(v) if isinstance(v, (list, set)) else v) for k, v in consts.items()}
    if r.get('violated') or not r.get('completed'):
        run['model_violation'] = True
        rep.notes.append('MODEL-ALARM %s: TLC reports a violation or did not complete on the implementation-shaped model: %s'
                         % (r['name'], (r.get('error_text') or '')[:1500]))
        log('MODEL-ALARM', r['name'], (r.get('error_text') or '')[:600])
    hists = r.get('hists', [])
    if not hists:
        return r
    outdir = '%s/%s/mcreplay_%s' % (RUN, rep.prop, r['name'])
    clean_dir(outdir)
    planfile = outdir + '/plans.ndjson'
    with open(planfile, 'w') as f:
        for i, h in enumerate(hists):
            new = dict(h['new'])
            new['h'] = i + 1
            plan = history_to_plan([json.dumps(new)] + [json.dumps(c) for c in h['calls']])
            f.write(json.dumps(plan) + '\n')
    st = run_profile(binp, kind + '-replay', outdir, 1, 'quick', shards=1, extra=['--in', planfile])
    results = validate_traces(PROFILE_SPEC[kind + '-replay'], st['files'])
    rep.add_trace_results('replay of %d TLC-exported behaviours of %s' % (len(hists), r['name']), PROFILE_SPEC[kind + '-replay'], results, st)
    handle_trace_violations(rep, results)
    # prediction vs reality
    real = {}
    cur = None
    for line in open(st['files'][0]):
        e = json.loads(line)
        if e['ev'] in ('N', 'NE'):
            cur = e['h']
            real[cur] = []
        elif e['ev'] in ('D', 'E') and cur is not None:
            real[cur].append(e)
    keys = ('res', 'ml', 'ma', 'read', 'written', 'out', 'had', 'enc', 'cap', 'q') if kind == 'dec' else ('res', 'um', 'read', 'written', 'out', 'had', 'pending', 'cap', 'q')
    drift = 0
    first = None
    ncalls = 0
    for i, h in enumerate(hists):
        rc = real.get(i + 1, [])
        for j, c in enumerate(h['calls']):
            ncalls += 1
            if j >= len(rc):
                break
            if any(c.get(k) != rc[j].get(k) for k in keys):
                drift += 1
                if first is None:
                    first = {'history': i + 1, 'call': j, 'predicted': {k: c.get(k) for k in set(keys + ('src', 'cap', 'last'))},
                             'real': {k: rc[j].get(k) for k in set(keys + ('src', 'cap', 'last'))}}
                break
    run['replayed_histories'] = len(hists)
    run['replayed_calls'] = ncalls
    run['model_drift_histories'] = drift
    run['model_conformant'] = drift == 0
    if first:
        run['first_drift'] = first
        log('MODEL-DRIFT %s: %d of %d replayed behaviours differ from the prediction, first: %s' % (r['name'], drift, len(hists), json.dumps(first)[:700]))
    if hists:
        rep.cov['samples'].append({'tlc_exported_behaviour': hists[len(hists) // 2]})
    return r


def rv_guard(rep, binp, seed, tier):
    """guard pages: sources and destinations flush against a PROT_NONE page, cases run in child processes; a child killed
    by a signal is recorded as a "G" event (C06.fault); completed decode/encode cases are ordinary histories"""
    outdir = '%s/%s/guard' % (RUN, rep.prop)
    clean_dir(outdir)
    st = run_profile(binp, 'guard', outdir, seed, tier, shards=1)
    for prefix, spec in (('guard-dec_', 'TraceDec'), ('guard-enc_', 'TraceEnc')):
        files = sorted(os.path.join(outdir, f) for f in os.listdir(outdir) if f.startswith(prefix) and os.path.getsize(os.path.join(outdir, f)) > 0)
        if files:
            results = validate_traces(spec, files)
            rep.add_trace_results('guard pages (%s*), %s faults' % (prefix, st.get('faults')), spec, results, st)
            handle_trace_violations(rep, results)
    rep.cov['guard_page_cases'] = st.get('histories')
    rep.cov['guard_page_faults'] = st.get('faults')


def C(enc, mode, sink, repl, maxpend, caps, alphabet):
    return dict(EncName=enc, ModeName=mode, SinkName=sink, Repl=repl, MaxPend=maxpend, Caps=caps, Alphabet=alphabet)


# Layer I x monitor configurations (class-representative alphabets of real bytes, DESIGN.md Appendix C)
MC_CHUNKING_QUICK = [
    C('Big5', 'off', 'utf8', False, 3, [4, 5, 6, 7, 8, 64], [0x20, 0x40, 0x80, 0x87, 0x88, 0x62, 0xA4, 0xFE, 0xFF]),
    C('Big5', 'off', 'utf16', True, 3, [2, 3, 4, 64], [0x20, 0x40, 0x80, 0x87, 0x88, 0x62, 0xA4, 0xFE, 0xFF]),
    C('Shift_JIS', 'off', 'utf8', True, 3, [4, 5, 6, 64], [0x20, 0x3F, 0x40, 0x80, 0x81, 0x82, 0xA0, 0xA1, 0xDF, 0xFC, 0xFD]),
    C('EUC-KR', 'off', 'utf8', False, 3, [4, 5, 6, 64], [0x20, 0x2C, 0x41, 0x5B, 0x80, 0x81, 0xA1, 0xB0, 0xC7, 0xFE, 0xFF]),
    C('windows-1252', 'off', 'utf8', True, 3, [4, 5, 6, 64], [0x20, 0x41, 0x80, 0x81, 0xEF, 0xFF]),
    C('windows-1253', 'off', 'utf16', False, 3, [2, 3, 64], [0x20, 0x41, 0x80, 0xAA, 0xD2, 0xFF]),
    C('x-user-defined', 'off', 'utf8', False, 3, [4, 5, 64], [0x41, 0x80, 0xFF]),
    C('ISO-2022-JP', 'off', 'utf8', True, 2, [4, 5, 64], [0x1B, 0x24, 0x28, 0x42, 0x4A, 0x41, 0x21, 0x80]),
    C('UTF-8', 'off', 'utf8', True, 2, [4, 5, 7, 64], [0x41, 0x80, 0xC2, 0xE0, 0xA0, 0xF0, 0x90]),
    C('UTF-8', 'off', 'utf16', False, 2, [2, 3, 64], [0x41, 0x80, 0xC2, 0xE0, 0xA0, 0xF0, 0x90]),
    C('gb18030', 'off', 'utf8', True, 2, [4, 5, 64], [0x30, 0x41, 0x81, 0x84, 0xFF]),
    C('EUC-JP', 'off', 'utf8', True, 2, [4, 5, 64], [0x41, 0x8E, 0x8F, 0xA1, 0xB0, 0xFF]),
]
MC_CHUNKING_THOROUGH = MC_CHUNKING_QUICK + [
    C('UTF-8', 'off', 'utf8', True, 3, [4, 5, 6, 7, 64], [0x41, 0x80, 0xBF, 0xC2, 0xE0, 0xA0, 0xED, 0xF0, 0x90, 0xF4, 0xFF]),
    C('UTF-8', 'off', 'utf16', False, 3, [2, 3, 4, 64], [0x41, 0x80, 0xBF, 0xC2, 0xE0, 0xA0, 0xED, 0xF0, 0x90, 0xF4, 0xFF]),
    C('Big5', 'off', 'utf8', True, 4, [4, 5, 6, 7, 8, 64], [0x20, 0x40, 0x7E, 0x80, 0x81, 0x87, 0x88, 0x62, 0xA4, 0xC8, 0xFE, 0xFF]),
    C('Shift_JIS', 'off', 'utf16', False, 4, [2, 3, 4, 64], [0x20, 0x3F, 0x40, 0x7E, 0x80, 0x81, 0x82, 0x9F, 0xA0, 0xA1, 0xDF, 0xE0, 0xFC, 0xFD, 0xFF]),
    C('EUC-KR', 'off', 'utf16', True, 4, [2, 3, 64], [0x20, 0x2C, 0x41, 0x5A, 0x5B, 0x80, 0x81, 0xA1, 0xB0, 0xC6, 0xC7, 0xFE, 0xFF]),
    C('ISO-2022-JP', 'off', 'utf8', True, 3, [4, 5, 64], [0x1B, 0x24, 0x28, 0x42, 0x4A, 0x41, 0x21, 0x80]),
    C('ISO-2022-JP', 'off', 'utf16', False, 3, [2, 3, 64], [0x0E, 0x1B, 0x24, 0x28, 0x40, 0x42, 0x49, 0x4A, 0x5C, 0x21]),
    C('IBM866', 'off', 'utf8', False, 4, [4, 5, 6, 7, 64], [0x20, 0x3B, 0x41, 0x80, 0xB0, 0xFF]),
    C('EUC-JP', 'off', 'utf8', True, 3, [4, 5, 6, 64], [0x20, 0x41, 0x80, 0x8E, 0x8F, 0xA1, 0xA4, 0xDF, 0xFE, 0xFF]),
    C('EUC-JP', 'off', 'utf16', False, 3, [2, 3, 64], [0x41, 0x8E, 0x8F, 0xA1, 0xB0, 0xFF]),
    C('gb18030', 'off', 'utf8', False, 3, [4, 5, 6, 64], [0x30, 0x41, 0x80, 0x81, 0x84, 0xFE, 0xFF]),
    C('gb18030', 'off', 'utf16', True, 3, [2, 3, 64], [0x30, 0x40, 0x81, 0xA1, 0xE3, 0xFF]),
    C('GBK', 'sniff', 'utf8', True, 2, [4, 5, 64], [0x30, 0x41, 0x81, 0xEF, 0xBB, 0xBF, 0xFF]),
]
BOMA = [0x41, 0x80, 0xEF, 0xBB, 0xBF, 0xFE, 0xFF]
MC_BOM_QUICK = [
    C('windows-1252', 'sniff', 'utf8', True, 2, [4, 5, 6, 64], BOMA),
    C('windows-1252', 'sniff', 'utf8', False, 2, [4, 5, 64], BOMA),
    C('ISO-2022-JP', 'sniff', 'utf16', False, 2, [2, 3, 64], [0x41, 0x1B, 0xEF, 0xBB, 0xBF, 0xFE, 0xFF]),
    C('ISO-2022-JP', 'sniff', 'utf8', True, 2, [4, 5, 64], [0x41, 0x1B, 0xEF, 0xBB, 0xBF, 0xFE, 0xFF]),
    C('replacement', 'sniff', 'utf16', True, 2, [2, 3, 64], BOMA),
    C('Big5', 'sniff', 'utf8', False, 2, [4, 5, 64], BOMA),
    C('UTF-8', 'remove', 'utf8', True, 2, [4, 5, 64], [0x41, 0x80, 0xEF, 0xBB, 0xBF]),
    C('x-user-defined', 'sniff', 'utf8', False, 2, [4, 5, 64], BOMA),
    C('Shift_JIS', 'remove', 'utf16', False, 2, [2, 3, 64], BOMA),
    C('UTF-16LE', 'sniff', 'utf8', True, 2, [4, 5, 64], [0x41, 0x00, 0xD8, 0xDC, 0xFE, 0xFF, 0xEF]),
]
MC_BOM_THOROUGH = MC_BOM_QUICK + [
    C('windows-1252', 'sniff', 'utf8', True, 3, [4, 5, 6, 64], BOMA),
    C('windows-1252', 'sniff', 'utf16', False, 3, [2, 3, 64], BOMA),
    C('ISO-2022-JP', 'sniff', 'utf8', True, 3, [4, 5, 64], [0x41, 0x1B, 0x24, 0xEF, 0xBB, 0xBF, 0xFE, 0xFF]),
    C('replacement', 'sniff', 'utf8', False, 3, [4, 5, 64], BOMA),
    C('EUC-KR', 'sniff', 'utf8', True, 3, [4, 5, 64], BOMA),
    C('x-user-defined', 'sniff', 'utf16', True, 3, [2, 3, 64], BOMA),
    C('UTF-16LE', 'remove', 'utf16', False, 3, [2, 3, 64], [0x41, 0x00, 0xD8, 0xDC, 0xFE, 0xFF, 0xEF]),
    C('UTF-16BE', 'off', 'utf8', True, 4, [4, 5, 6, 7, 8, 64], [0x00, 0x41, 0xD8, 0xDC, 0xFF]),
    C('UTF-16LE', 'off', 'utf16', False, 4, [2, 3, 4, 64], [0x00, 0x41, 0xD8, 0xDC, 0xFF]),
]


# UTF-16 with the surrogate / pending-BMP states (pending U+0000 included: finding F7), both sinks
MC_UTF16_QUERY = [
    C('UTF-16BE', 'off', 'utf8', False, 2, [4, 5, 64], [0x00, 0x41, 0xD8, 0xDC]),
    C('UTF-16LE', 'off', 'utf16', True, 2, [2, 3, 64], [0x00, 0x41, 0xD8, 0xDC]),
]


def run_mc_set(rep, binp, configs, what, module='MC_DecQ', kind='dec', export=True):
    """TLC exhaustive on Layer I x monitor for every configuration (up to 5 TLC instances at a time), then spec -> impl:
    the exported behaviours of all configurations are re-driven on the real code in one harness run, validated by the
    monitor (violations are fatal) and compared call by call with the model's predictions (MODEL-DRIFT notes)."""
    import concurrent.futures
    t = time.time()
    # exporting runs are single-threaded (one behaviour per state, printed in BFS order): parallelism comes from the configurations
    with concurrent.futures.ThreadPoolExecutor(max_workers=10) as ex:
        futs = [ex.submit(mc_run, module, cfg, ('NoViolation',), (), 'View', 3, 3000, export, '4g') for cfg in configs]
        runs = [f.result() for f in futs]
    log('TLC model checking of %d configurations of %s in %.1fs' % (len(configs), module, time.time() - t))
    outdir = '%s/%s/mcreplay_%s' % (RUN, rep.prop, module)
    clean_dir(outdir)
    planfile = outdir + '/plans.ndjson'
    spans = []
    gid = 0
    with open(planfile, 'w') as f:
        for cfg, r in zip(configs, runs):
            rep.add_mc(r['name'], r, what)
            run = rep.cov['mc_runs'][-1]
            run['consts'] = {k: (sorted(v) if isinstance(v, (list, set)) else v) for k, v in cfg.items()}
            if r.get('violated') or not r.get('completed'):
                run['model_violation'] = True
                rep.notes.append('MODEL-ALARM %s: TLC reports a violation or did not complete on the implementation-shaped model: %s'
                                 % (r['name'], (r.get('error_text') or '')[:1500]))
                log('MODEL-ALARM', r['name'], (r.get('error_text') or '')[:600])
            hists = r.get('hists', [])
            start = gid
            for h in hists:
                gid += 1
                new = dict(h['new'])
                new['h'] = gid
                plan = history_to_plan([json.dumps(new)] + [json.dumps(c) for c in h['calls']])
                plan['h'] = gid
                if kind == 'dec':
                    # the caller also asks latin1_byte_compatible_up_to about the bytes of every call (model: lq)
                    plan['lat'] = True
                    plan['latsrc'] = True
                f.write(json.dumps(plan) + '\n')
            spans.append((run, hists, start))
    if gid == 0:
        return
    st = run_profile(binp, kind + '-replay', outdir, 1, 'quick', shards=8, extra=['--in', planfile])
    spec = PROFILE_SPEC[kind + '-replay']
    results = validate_traces(spec, st['files'])
    rep.add_trace_results('replay of %d TLC-exported behaviours of %d %s configurations' % (gid, len(configs), module), spec, results, st)
    handle_trace_violations(rep, results)
    # prediction vs reality: the harness numbers the replayed histories in plan order per shard; "orig" carries the plan id
    real = {}
    for fpath in st['files']:
        cur = None
        for line in open(fpath):
            e = json.loads(line)
            if e['ev'] in ('N', 'NE'):
                cur = e.get('orig', e['h'])
                real[cur] = []
                lq = None
            elif e['ev'] == 'L':
                lq = e['ret']
            elif e['ev'] in ('D', 'E') and cur is not None:
                if kind == 'dec':
                    e['lq'] = lq
                    lq = None
                real[cur].append(e)
    keys = ('res', 'ml', 'ma', 'read', 'written', 'out', 'had', 'enc', 'cap', 'q', 'lq', 'post', 'pre', 'same') if kind == 'dec' else ('res', 'um', 'read', 'written', 'out', 'had', 'pending', 'cap', 'q')
    for run, hists, start in spans:
        drift = 0
        first = None
        ncalls = 0
        for i, h in enumerate(hists):
            rc = real.get(start + i + 1, [])
            for j, c in enumerate(h['calls']):
                ncalls += 1
                if j >= len(rc):
                    break
                if any(c.get(k) != rc[j].get(k) for k in keys):
                    drift += 1
                    if first is None:
                        first = {'history': i + 1, 'call': j, 'predicted': {k: c.get(k) for k in set(keys + ('src', 'cap', 'last'))},
                                 'real': {k: rc[j].get(k) for k in set(keys + ('src', 'cap', 'last'))}}
                    break
        run['replayed_histories'] = len(hists)
        run['replayed_calls'] = ncalls
        # vacuity guard: which kinds of results the explored behaviours contain (last call of each exported behaviour)
        kinds = {}
        for h in hists:
            if h['calls']:
                c = h['calls'][-1]
                k = c['res'] + ('+had' if c.get('had') else '') + ('+q' if c.get('q') else '') + ('+last' if c.get('last') else '')
                kinds[k] = kinds.get(k, 0) + 1
        run['exported_last_call_kinds'] = kinds
        run['model_drift_histories'] = drift
        run['model_conformant'] = drift == 0
        if first:
            run['first_drift'] = first
            log('MODEL-DRIFT %s: %d of %d replayed behaviours differ from the prediction, first: %s' % (run['model'], drift, len(hists), json.dumps(first)[:600]))
        if hists and len(rep.cov['samples']) < 8:
            rep.cov['samples'].append({'tlc_exported_behaviour': hists[len(hists) // 2]})
    log('MC set (%d configurations) in %.1fs' % (len(configs), time.time() - t))


def E(enc, source, repl, maxpend, caps, alphabet):
    return dict(EncName=enc, EncSource=source, Repl=repl, MaxPend=maxpend, Caps=caps, Alphabet=alphabet)


MC_ENC_QUICK = [
    E('ISO-2022-JP', 'utf8', False, 2, [4, 5, 6, 64], [0x41, 0x5C, 0x1B, 0xA5, 0x3042, 0xFF61, 0xE9, 0x1F4A9, 0x4E02]),
    E('ISO-2022-JP', 'utf16', True, 2, [14, 15, 16, 17, 24, 64], [0x41, 0x5C, 0x1B, 0xA5, 0x3042, 0xFF61, 0xE9, 0x1F4A9, 0xDCA9]),
    E('Big5', 'utf16', False, 3, [4, 5, 6, 64], [0x41, 0x2550, 0x4E00, 0x2008A, 0xE9, 0x1F4A9, 0xD83D]),
    E('gb18030', 'utf8', True, 3, [14, 15, 17, 18, 64], [0x41, 0x80, 0x20AC, 0x4E00, 0xE5E5, 0xE7C7, 0x1F4A9]),
    E('windows-1252', 'utf8', True, 3, [14, 15, 16, 64], [0x41, 0x2C, 0x80, 0xE9, 0x20AC, 0x3042, 0x1F4A9]),
    E('EUC-KR', 'utf8', False, 3, [4, 5, 6, 64], [0x41, 0x2C, 0xAC00, 0x4E00, 0xE9, 0x1F4A9]),
    E('windows-1252', 'utf16', False, 3, [4, 5, 6, 64], [0x41, 0x2C, 0xE9, 0x20AC, 0x3042, 0x1F4A9, 0xD83D]),
    E('UTF-8', 'utf16', False, 3, [4, 5, 6, 7, 64], [0x41, 0xE9, 0x20AC, 0x1F4A9, 0xDCA9]),
    E('x-user-defined', 'utf8', True, 3, [14, 15, 64], [0x41, 0x7F, 0x80, 0xF780, 0xF7FF, 0x1F4A9]),
]
MC_ENC_THOROUGH = MC_ENC_QUICK + [
    E('UTF-8', 'utf8', True, 3, [4, 5, 6, 7, 64], [0x41, 0xE9, 0x20AC, 0x1F4A9, 0x7FF, 0x800]),
    E('IBM866', 'utf16', True, 3, [14, 15, 16, 64], [0x41, 0x2C, 0x410, 0xE9, 0x3042, 0x1F4A9, 0xDCA9]),
    E('ISO-2022-JP', 'utf8', True, 3, [14, 15, 16, 17, 20, 64], [0x41, 0x5C, 0x7E, 0x0E, 0xA5, 0x203E, 0x2212, 0x3042, 0xFF61, 0x4E00, 0xE9, 0x1F4A9]),
    E('ISO-2022-JP', 'utf16', False, 3, [4, 5, 6, 7, 64], [0x41, 0x5C, 0x1B, 0xA5, 0x3042, 0xFF9F, 0x4EDD, 0xE9, 0x1F4A9, 0xD83D]),
    E('Shift_JIS', 'utf16', True, 3, [14, 15, 16, 64], [0x41, 0x5C, 0x80, 0xA5, 0x203E, 0x2212, 0xFF61, 0x3042, 0x1F4A9, 0xDCA9]),
    E('EUC-JP', 'utf8', False, 3, [4, 5, 6, 64], [0x41, 0xA5, 0x2212, 0xFF61, 0x3042, 0x4E00, 0x80, 0x1F4A9]),
    E('GBK', 'utf16', False, 3, [4, 5, 6, 7, 8, 64], [0x41, 0x80, 0x20AC, 0xE9, 0x4E00, 0xE5E5, 0xE78D, 0x1F4A9, 0xD83D]),
    E('Big5', 'utf8', True, 4, [14, 15, 16, 64], [0x41, 0x2550, 0x5341, 0x4E00, 0x2008A, 0xE9, 0x1F4A9]),
]


def plan_C01(rep, seed, tier):
    binp = build_harness('default')
    rv(rep, binp, 'dec-whole', seed, tier, shards=32 if tier == 'thorough' else 16, budget=1e7)
    rep.cov['rule'] = ('whole-stream decodes through decode_to_utf8/utf16 with and without replacement: every 1-byte string x 40 encodings x 4 forms; '
                       'every 2-byte string for the 12 multi-byte/stateful encodings (+ seed-rotated single-byte ones; all 40 in thorough); '
                       'all 3/4-byte strings over per-encoding class alphabets; EUC-JP 8F xx yy (all), all gb18030 four-byte range pointers, ISO-2022-JP every byte / pair after each escape; seeded grammar strings')


def plan_C02(rep, seed, tier):
    binp = build_harness('default')
    rv(rep, binp, 'dec-cutsets', seed, tier, shards=32 if tier == 'thorough' else 16)
    rv(rep, binp, 'dec-random', seed, tier)
    rv(rep, binp, 'dec-deep', seed, tier, shards=32 if tier == 'thorough' else 16)
    run_mc_set(rep, binp, MC_CHUNKING_THOROUGH if tier == 'thorough' else [MC_CHUNKING_QUICK[i] for i in (0, 1, 2, 4, 5, 7, 8, 9, 10, 11)],
               'Layer I x DecoderMonitor: all Stage/Invoke interleavings, invariant NoViolation (prefix rule, completeness, spans, progress, no panic)',
               module='MC_Dec')
    rep.cov['rule'] = ('all cut sets of every stream of length <= 3 (thorough: 4, plus seeded 5..7) over the per-encoding class alphabet x capacities min..min+3 and 64 '
                       'x 4 sinks x replacement x empty final call; seeded random histories with re-cuts, empty calls and queried capacities')


def plan_C03(rep, seed, tier):
    binp = build_harness('default')
    rv(rep, binp, 'enc-sweep', seed, tier, shards=32)
    rv(rep, binp, 'enc-pairs', seed, tier)
    r = mc_run('MC_Indexes', {}, invariants=('Inv',), view=None, workers=1)
    rep.add_mc(r['name'], r, 'Layer S: the inverse tables used by the encoder oracle satisfy the Standard\'s pointer-selection rules (first pointer; Big5 last-pointer set and '
                            'excluded lead range; Shift_JIS excluded range) with respect to the forward indexes (Indexes!InverseCorrect)')
    if r.get('violated') or not r.get('completed'):
        rep.notes.append('MODEL-ALARM MC_Indexes: ' + (r.get('error_text') or '')[:1000])
    rep.cov['exhaustive'] = tier == 'thorough'
    rep.cov['rule'] = ('every scalar value alone through every encoder from UTF-8 and UTF-16 (BMP exhaustive; astral stride 16 in quick, exhaustive in thorough), '
                       'set equality of the mapped list with the spec; every ordered pair over a 40-scalar class alphabet (+ lone surrogates) as whole texts; seeded random texts')


def plan_C04(rep, seed, tier):
    binp = build_harness('default')
    rv(rep, binp, 'enc-cutsets', seed, tier, shards=32 if tier == 'thorough' else 16)
    rv(rep, binp, 'enc-random', seed, tier)
    run_mc_set(rep, binp, MC_ENC_THOROUGH if tier == 'thorough' else MC_ENC_QUICK,
               'Layer I (encoder macros, ISO-2022-JP encoder, NCR wrapper) x EncoderMonitor: all Stage/Invoke interleavings, invariant NoViolation '
               '(two-sided prefix rule, no split character, round trip, pending state, progress)', module='MC_Enc', kind='enc')
    rep.cov['rule'] = ('all cut sets of every text of length <= 3 (thorough: 4) over per-encoder scalar alphabets x capacities around check_space thresholds '
                       'and NCR_EXTRA x both sources x slice/Vec x replacement; seeded random histories')


def plan_C05(rep, seed, tier):
    binp = build_harness('default')
    rv(rep, binp, 'dec-cutsets', seed, tier, extra=['--sinks', 'str,string'] + (['--thin', '2'] if tier == 'quick' else []), tag='dec-cutsets-str', budget=8e6)
    rv(rep, binp, 'dec-random', seed, tier, extra=['--sinks', 'str,string,utf8,utf16'], tag='dec-random-allsinks')
    rv(rep, binp, 'dec-whole', seed, tier, extra=['--sinks', 'str,string,utf8', '--thin', '6' if tier == 'quick' else '1'], tag='dec-whole-str', budget=8e6)
    rv(rep, binp, 'dec-deep', seed, tier, extra=['--sinks', 'str,string,utf8', '--thin', '4' if tier == 'quick' else '1'], tag='dec-deep-str', budget=8e6)
    strcfg = [
        C('Big5', 'off', 'str', True, 2, [4, 5, 7, 24], [0x20, 0x80, 0x87, 0x62, 0xA4, 0xFF]),
        C('windows-1252', 'sniff', 'str', False, 2, [4, 6, 24], [0x41, 0x80, 0xEF, 0xBB, 0xBF, 0xFF]),
        C('UTF-8', 'off', 'str', True, 2, [4, 5, 7, 24], [0x41, 0x80, 0xC2, 0xE0, 0xA0, 0xF0, 0x90]),
        C('gb18030', 'off', 'string', True, 2, [4, 5, 24], [0x30, 0x41, 0x81, 0x84, 0xFF]),
        C('UTF-16LE', 'off', 'str', True, 2, [4, 5, 7, 24], [0x41, 0x00, 0xD8, 0xDC, 0xFF]),
        C('EUC-JP', 'off', 'str', False, 2, [4, 5, 24], [0x41, 0x8E, 0x8F, 0xA1, 0xB0, 0xFF]),
    ]
    if tier == 'thorough':
        strcfg += [
            C('Shift_JIS', 'off', 'str', True, 3, [4, 5, 6, 20, 24], [0x20, 0x40, 0x80, 0x81, 0xA1, 0xDF, 0xFC, 0xFD]),
            C('ISO-2022-JP', 'off', 'string', True, 3, [4, 5, 24], [0x1B, 0x24, 0x28, 0x42, 0x4A, 0x41, 0x21, 0x80]),
            C('UTF-16BE', 'sniff', 'str', False, 3, [4, 5, 7, 24], [0x41, 0x00, 0xD8, 0xDC, 0xFE, 0xFF]),
            C('UTF-8', 'sniff', 'string', False, 3, [4, 5, 7, 24], [0x41, 0x80, 0xC2, 0xE0, 0xA0, 0xEF, 0xBB, 0xBF]),
            C('windows-1252', 'off', 'str', True, 3, [4, 5, 6, 21, 22, 23, 24], [0x20, 0x41, 0x80, 0x81, 0xEF, 0xFF]),
        ]
    run_mc_set(rep, binp, strcfg, 'Layer I with the str / String receivers (decode_to_utf8* into the receiver, then the StrZeroing clean-up with K = 16 unless the '
               'decoder is UTF-8 after the call): the monitor validates the whole destination in every reachable state; every (state, call) pair is replayed '
               'and the whole destination after the call compared byte by byte', module='MC_Dec', export='steps')
    r = mc_run('MC_StrZeroing', dict(MaxLen=8 if tier == 'thorough' else 7, K=3, GarbageBytes=[65, 128, 195, 255]), invariants=('ResultValid', 'PrefixKept'), view=None, workers=8)
    rep.add_mc(r['name'], r, 'Layer I clean-up of decode_to_str* / convert_*_to_str_partial (zero MAX_STRIDE_SIZE, then strip continuation bytes): every valid old buffer, every written prefix, every garbage pattern in the stride window => valid UTF-8')
    if r.get('violated') or not r.get('completed'):
        rep.notes.append('MODEL-ALARM MC_StrZeroing: ' + (r.get('error_text') or '')[:1000])
    rv(rep, binp, 'mem', seed, tier, shards=32, extra=['--which', 'c05', '--thin', '3'] if tier == 'quick' else ['--which', 'c05', '--thin', '12'], tag='mem-str')
    simd = build_harness('simd')
    rv(rep, simd, 'mem', seed, tier, shards=32, extra=['--which', 'c05', '--thin', '4'] if tier == 'quick' else ['--which', 'c05', '--thin', '16'], tag='mem-str-simd', build='simd')
    rv(rep, simd, 'dec-cutsets', seed, tier, extra=['--sinks', 'str,string', '--thin', '6' if tier == 'quick' else '1'], tag='dec-cutsets-str-simd', build='simd', budget=8e6)
    rep.cov['rule'] = ('decode_to_str* / decode_to_string* on all cut sets of short class-alphabet streams: destination pre-filled with valid text of 1..4-byte '
                       'characters, whole destination validated after every call (also after the panic of a reused finished decoder); written prefix validated on every call of every sink')


def plan_C06(rep, seed, tier):
    binp = build_harness('default')
    rv(rep, binp, 'dec-random', seed, tier, extra=['--twins'], tag='dec-random')
    rv(rep, binp, 'enc-random', seed, tier, extra=['--twins'], tag='enc-random')
    rv(rep, binp, 'dec-bom', seed, tier, extra=['--thin', '6' if tier == 'quick' else '2', '--cap', 'min'], tag='dec-bom-min')
    rv(rep, binp, 'dec-deep', seed, tier, shards=32 if tier == 'thorough' else 16)
    rv_guard(rep, binp, seed, tier)
    rep.cov['rule'] = ('contract clauses (read <= src, written <= dst, InputEmpty => all consumed, no panic at documented minimum sizes, String/Vec keep pointer, capacity, '
                       'old contents, canary bands intact) on every call of random decoder/encoder histories and of the BOM matrix at minimum capacity')


def plan_C07(rep, seed, tier):
    binp = build_harness('default')
    rv(rep, binp, 'dec-cutsets', seed, tier, extra=['--cap', 'query', '--sinks', 'utf8,utf16', '--thin', '3' if tier == 'quick' else '1'], tag='dec-cutsets-query')
    rv(rep, binp, 'dec-cutsets', seed, tier, extra=['--cap', 'mixq', '--sinks', 'utf8,utf16', '--thin', '3' if tier == 'quick' else '1'], tag='dec-cutsets-mixq')
    rv(rep, binp, 'dec-bom', seed, tier, extra=['--cap', 'query', '--thin', '12' if tier == 'quick' else '2'], tag='dec-bom-query')
    rv(rep, binp, 'dec-bom', seed, tier, extra=['--cap', 'mixq', '--thin', '6' if tier == 'quick' else '1'], tag='dec-bom-mixq')
    rv(rep, binp, 'enc-cutsets', seed, tier, extra=['--cap', 'query', '--thin', '3' if tier == 'quick' else '1'], tag='enc-cutsets-query')
    rv(rep, binp, 'enc-cutsets', seed, tier, extra=['--cap', 'mixq', '--thin', '3' if tier == 'quick' else '1'], tag='enc-cutsets-mixq')
    rv(rep, binp, 'query-overflow', seed, tier)
    mcq = (MC_CHUNKING_QUICK + MC_BOM_QUICK + MC_UTF16_QUERY + [
        C('UTF-16LE', 'off', 'utf8', True, 3, [4, 5, 6, 7, 64], [0x00, 0x41, 0xD8, 0xDC, 0xFF]),
        C('UTF-16BE', 'sniff', 'utf16', False, 3, [2, 3, 4, 64], [0x00, 0x41, 0xD8, 0xDC, 0xFE, 0xFF])]) if tier == 'thorough' else [MC_CHUNKING_QUICK[i] for i in (0, 2, 3, 7)] + [MC_BOM_QUICK[i] for i in (0, 2, 5)] + MC_UTF16_QUERY
    run_mc_set(rep, binp, mcq, 'Layer I incl. the max_*_buffer_length formulas (MaxLen.tla): InvokeQueried issues every call with the formula value in '
               'every reachable state; the monitor budget conjunct (C07.insufficient) is part of NoViolation; replay of every (state, call) pair uses the REAL query and compares its value with the formula',
               export='steps')
    # per-transition export prints one history per generated step: the big thorough encoder configurations (12-letter alphabets,
    # MaxPend 3..4) would take the better part of an hour each that way; they are explored per state in C04
    mce = MC_ENC_QUICK + MC_ENC_THOROUGH[9:11] + MC_ENC_THOROUGH[13:16] if tier == 'thorough' else [
        E('GBK', 'utf8', True, 2, [14, 15, 64], [0x41, 0x80, 0x20AC, 0x4E00, 0x1F4A9]),
        E('gb18030', 'utf16', False, 2, [4, 5, 64], [0x41, 0x80, 0x4E00, 0xE5E5, 0x1F4A9, 0xD83D]),
        E('ISO-2022-JP', 'utf16', False, 2, [4, 5, 64], [0x41, 0xA5, 0x3042, 0xFF61, 0x1F4A9, 0xD83D]),
        E('ISO-2022-JP', 'utf8', True, 2, [14, 15, 64], [0x41, 0x5C, 0x3042, 0xFF61, 0xE9]),
        E('Shift_JIS', 'utf8', False, 2, [4, 5, 64], [0x41, 0xA5, 0xFF61, 0x3042, 0x1F4A9]),
        E('UTF-8', 'utf16', False, 2, [4, 5, 64], [0x41, 0xE9, 0x20AC, 0x1F4A9, 0xDCA9]),
        E('windows-1252', 'utf16', True, 2, [14, 15, 64], [0x41, 0xE9, 0x20AC, 0x3042, 0x1F4A9]),
    ]
    run_mc_set(rep, binp, mce, 'Layer I incl. the encoder max_buffer_length_* formulas (ImplEncoder!EncoderMax): InvokeQueried in every reachable state; '
               'replay of every (state, call) pair uses the REAL query and compares its value with the formula', module='MC_Enc', kind='enc', export='steps')
    rep.cov['rule'] = ('calls of the cut-set / BOM-matrix histories are issued with dst.len() == the value the matching max_*_buffer_length query returns on '
                       'the same converter in its current state for the number of units passed (every call, or alternating with small capacities 0..min+1 so that '
                       'states behind an OutputFull - pending BB, half-read escapes, pending leads - are reached); OutputFull on a queried call is a violation')


def plan_C08(rep, seed, tier):
    binp = build_harness('default')
    rv(rep, binp, 'dec-cutsets', seed, tier, extra=['--cap', 'min'], tag='dec-cutsets-min')
    rv(rep, binp, 'dec-random', seed, tier, extra=['--cap', 'min'], tag='dec-random-min')
    rv(rep, binp, 'enc-cutsets', seed, tier, extra=['--cap', 'min'], tag='enc-cutsets-min')
    rv(rep, binp, 'enc-random', seed, tier, extra=['--cap', 'min1'], tag='enc-random-min1')
    rv(rep, binp, 'dec-deep', seed, tier, extra=['--thin', '2'] if tier == 'quick' else [], tag='dec-deep')
    # liveness form on Layer I x monitor: under weak fairness of "raise last and call with the minimum capacity" the stream ends
    import concurrent.futures
    live = [MC_CHUNKING_QUICK[i] for i in (0, 2, 4, 7, 8)] + [MC_BOM_QUICK[i] for i in (0, 3, 4)]  # incl. UTF-8
    if tier == 'thorough':
        live = MC_CHUNKING_QUICK + MC_BOM_QUICK
    with concurrent.futures.ThreadPoolExecutor(max_workers=5) as ex:
        futs = [ex.submit(mc_run, 'MC_DecLive', cfg, ('NoViolation',), ('Termination',), None, 3, 3000, False, '6g', 'LiveSpec') for cfg in live]
        for cfg, f in zip(live, futs):
            r = f.result()
            rep.add_mc(r['name'], r, 'liveness: LiveSpec (WF of Invoke(minimum capacity, last)) => <>(done): the documented caller loop terminates; safety: NoViolation')
            rep.cov['mc_runs'][-1]['consts'] = cfg
            if r.get('violated') or not r.get('completed'):
                rep.cov['mc_runs'][-1]['model_violation'] = True
                rep.notes.append('MODEL-ALARM MC_DecLive %s: %s' % (r['name'], (r.get('error_text') or '')[:1200]))
                log('MODEL-ALARM', r['name'], (r.get('error_text') or '')[:500])
    elive = [MC_ENC_QUICK[i] for i in (0, 1, 2, 3, 4, 8)] if tier == 'quick' else MC_ENC_QUICK + MC_ENC_THOROUGH[-6:]
    with concurrent.futures.ThreadPoolExecutor(max_workers=5) as ex:
        futs = [ex.submit(mc_run, 'MC_EncLive', cfg, ('NoViolation',), ('Termination',), None, 3, 3000, False, '6g', 'LiveSpec') for cfg in elive]
        for cfg, f in zip(elive, futs):
            r = f.result()
            rep.add_mc(r['name'], r, 'encoder liveness: LiveSpec (WF of Invoke(minimum capacity, last)) => <>(done), incl. the ISO-2022-JP return to ASCII and the NCR loop; safety: NoViolation')
            rep.cov['mc_runs'][-1]['consts'] = cfg
            if r.get('violated') or not r.get('completed'):
                rep.cov['mc_runs'][-1]['model_violation'] = True
                rep.notes.append('MODEL-ALARM MC_EncLive %s: %s' % (r['name'], (r.get('error_text') or '')[:1200]))
                log('MODEL-ALARM', r['name'], (r.get('error_text') or '')[:500])
    rep.cov['rule'] = ('the documented caller loop with minimum (and minimum+1) capacities on all cut sets of short streams/texts and on seeded long ones; '
                       'zero-progress OutputFull, more than 4*units+16 calls, or no termination within 8*units+64 calls is a violation')


def plan_C09(rep, seed, tier):
    binp = build_harness('default')
    rv(rep, binp, 'dec-cutsets', seed, tier, extra=['--repl', 'on', '--sinks', 'utf8,utf16', '--manual'], tag='dec-cutsets-repl')
    rv(rep, binp, 'enc-cutsets', seed, tier, extra=['--repl', 'on', '--manual'], tag='enc-cutsets-repl')
    rv(rep, binp, 'dec-random', seed, tier, extra=['--repl', 'on', '--sinks', 'utf8,utf16', '--manual'], tag='dec-random-repl')
    rv(rep, binp, 'enc-pairs', seed, tier, extra=['--repl', 'on', '--manual', '--thin', '2' if tier == 'quick' else '1'], tag='enc-pairs-repl')
    rv(rep, binp, 'enc-random', seed, tier, extra=['--repl', 'on', '--manual'], tag='enc-random-repl')
    # the same booleans as returned by the non-streaming API (Encoding::decode* / encode), incl. inputs whose replacement
    # characters outgrow the first allocation
    rv(rep, binp, 'oneshot', seed, tier, extra=['--thin', '4' if tier == 'quick' else '2'], tag='oneshot-flags')
    rep.cov['rule'] = ('with-replacement methods on cut-set and random histories and on whole texts incl. every decimal-length boundary of the numeric character reference: output = Standard items with one U+FFFD per error item / one NCR per unmappable atom, '
                       'had_errors / had_unmappables = an error item / NCR atom was emitted in that call (the monitor aligns output with the Standard item by item); '
                       'directly: every call is also given to a twin converter driven by the documented manual procedure (decoders: the caller\'s loop over '
                       '*_without_replacement on the same src/capacity/last appending U+FFFD per Malformed; encoders: the loop with an ample buffer on the consumed units '
                       'appending the NCR per Unmappable) and result, read, written, output and the boolean must be identical call by call')


def plan_C10(rep, seed, tier):
    binp = build_harness('default')
    rv(rep, binp, 'dec-bom', seed, tier, shards=32)
    rv(rep, binp, 'forbom', seed, tier, shards=4)
    run_mc_set(rep, binp, MC_BOM_THOROUGH if tier == 'thorough' else MC_BOM_QUICK,
               'Layer I (DecoderLifeCycle automaton) x DecoderMonitor with the BOM wrapper oracle: all splits of potential BOMs, last anywhere, invariant NoViolation',
               module='MC_Dec')
    rep.cov['rule'] = ('40 nominal encodings x 3 BOM modes x every prefix of length 0..3 over {EF,BB,BF,FE,FF,41,80} x 5 tails x all cut sets of the first 4 bytes '
                       'x capacities min..min+2 and 64 x both raw sinks x replacement x empty final call')


def plan_C12(rep, seed, tier):
    binp = build_harness('default')
    rv(rep, binp, 'enc-pairs', seed, tier)
    rv(rep, binp, 'enc-random', seed, tier, extra=['--repl', 'on'], tag='enc-random-repl')
    rv(rep, binp, 'enc-sweep', seed, tier, shards=32)
    rep.cov['rule'] = ('every scalar alone through every encoder (aggregate sweep: the bytes must be the Standard\'s, which decode back by FoldOf; output accompanying an Unmappable answer is reported); '
                       'after every encode call: Standard decoder of the same encoding over all bytes so far reports no error, decodes to the input modulo the fold set, '
                       'has_pending_state() = state implied by the emitted escapes, ASCII state at the end')


def plan_C18(rep, seed, tier):
    binp = build_harness('default')
    rv(rep, binp, 'dec-cutsets', seed, tier, extra=['--twins', '--thin', '2' if tier == 'quick' else '1'], tag='dec-cutsets-twins')
    rv(rep, binp, 'enc-cutsets', seed, tier, extra=['--twins', '--thin', '2' if tier == 'quick' else '1'], tag='enc-cutsets-twins')
    rv(rep, binp, 'dec-random', seed, tier, extra=['--twins'], tag='dec-random-twins')
    rv(rep, binp, 'mem', seed, tier, shards=32, extra=['--which', 'c15', '--thin', '3' if tier == 'quick' else '14'], tag='mem-fills')
    rep.cov['rule'] = ('every mem conversion executed with the destination pre-filled 0xA5 / 0x00 / 0xFF; every call executed on three converters in lockstep with the destination (incl. String/Vec spare capacity) pre-filled 0x00 / 0xFF / 0xA5; '
                       'return tuples and dst[..written] must be identical')


def plan_C19(rep, seed, tier):
    binp = build_harness('default')
    rv(rep, binp, 'dec-bom', seed, tier, extra=['--latin1', '--twins', '--thin', '4' if tier == 'quick' else '1'], tag='dec-bom-latin1')
    rv(rep, binp, 'dec-random', seed, tier, extra=['--latin1', '--twins'], tag='dec-random-latin1')
    rv(rep, binp, 'dec-cutsets', seed, tier, extra=['--latin1', '--twins', '--thin', '2' if tier == 'quick' else '1'], tag='dec-cutsets-latin1')
    lat = [MC_CHUNKING_QUICK[i] for i in (5, 7, 10, 11)] + [MC_BOM_QUICK[i] for i in (0,)]
    if tier == 'thorough':
        lat = MC_CHUNKING_QUICK + MC_BOM_QUICK
    run_mc_set(rep, binp, lat, 'Layer I incl. Decoder::latin1_byte_compatible_up_to (ImplDecoder!DecoderLatin1: life-cycle arms, in_neutral_state per variant): the query '
               'precedes every call in every reachable state and is judged by the monitor (NoViolation); replay compares the real answer with the model\'s',
               module='MC_Dec')
    rep.cov['rule'] = ('latin1_byte_compatible_up_to asked before every call of BOM-matrix, cut-set and random histories (mid-sequence, BOM pending, after OutputFull / Malformed), '
                       'judged against the Standard decoder state at the consumed position; twins without the queries must produce identical results')


def plan_C11(rep, seed, tier):
    binp = build_harness('default')
    rv(rep, binp, 'oneshot', seed, tier, shards=32)
    run_mc_oneshot(rep, binp, MC_ONESHOT_THOROUGH if tier == 'thorough' else MC_ONESHOT_QUICK)
    run_mc_oneshot_enc(rep, binp, MC_ONESHOT_ENC_THOROUGH if tier == 'thorough' else MC_ONESHOT_ENC_QUICK)
    rep.cov['rule'] = ('Encoding::decode / decode_with_bom_removal / decode_without_bom_handling / ..._and_without_replacement / encode for all 40 encodings: '
                       'ASCII run of every length 0..130 (and 191..193, 255..257, 1000, 4095..4097) followed by class-alphabet tails and BOM look-alikes; '
                       'text, encoding used, error flag, None-iff-malformed, borrow promise and aliasing judged by the spec; streaming twin compared')


def O(enc, alphabet, maxbytes):
    return dict(EncName=enc, Alphabet=alphabet, MaxBytes=maxbytes)


# Layer I of the one-shot decode API: every input up to MaxBytes over alphabets with error bytes (so that the replacement
# characters outgrow the first allocation), BOM bytes and each encoding's lead/trail classes
MC_ONESHOT_QUICK = [
    O('UTF-8', [0x61, 0x80, 0xC3, 0xFF, 0xEF], 5),
    O('UTF-8', [0x61, 0xEF, 0xBB, 0xBF, 0xFF], 4),
    O('windows-1252', [0x61, 0x80, 0x81, 0xFF, 0xFE, 0xEF, 0xBB, 0xBF], 4),
    O('Big5', [0x61, 0x80, 0x87, 0xA4, 0x40, 0xFF], 5),
    O('EUC-KR', [0x61, 0x80, 0xA1, 0xB0, 0xFF], 5),
    O('ISO-2022-JP', [0x61, 0x1B, 0x24, 0x28, 0x42, 0xFF], 5),
    O('UTF-16LE', [0x61, 0x00, 0xD8, 0xDC, 0xFF, 0xFE], 5),
    O('replacement', [0x61, 0xEF, 0xBB, 0xBF, 0xFF], 4),
    O('gb18030', [0x61, 0x30, 0x81, 0x84, 0xFF], 5),
]
MC_ONESHOT_THOROUGH = MC_ONESHOT_QUICK + [
    O('UTF-8', [0x61, 0x80, 0xC3, 0xE2, 0xF0, 0x9F, 0xFF], 5),
    O('UTF-8', [0x61, 0x80, 0xFF], 8),
    O('EUC-KR', [0x61, 0x80, 0xA1, 0xB0, 0xFF], 6),
    O('Big5', [0x61, 0x87, 0xFF], 8),
    O('EUC-JP', [0x61, 0x8E, 0x8F, 0xA1, 0xB0, 0xFF], 6),
    O('Shift_JIS', [0x61, 0x80, 0x81, 0x40, 0xA1, 0xFC, 0xFD, 0xFF], 5),
    O('UTF-16BE', [0x61, 0x00, 0xD8, 0xDC, 0xFE, 0xFF], 6),
    O('x-user-defined', [0x61, 0x80, 0xFF, 0xEF, 0xBB, 0xBF], 5),
    O('GBK', [0x61, 0x80, 0x81, 0x30, 0x40, 0xFF], 6),
]


def run_mc_oneshot(rep, binp, configs):
    """TLC: Layer I of the one-shot API judged by the monitor's one-shot rule on every input of the configuration; then every
    input is replayed on the real API (OD events: violations are fatal) and the four results are compared with the prediction"""
    import concurrent.futures
    t = time.time()
    with concurrent.futures.ThreadPoolExecutor(max_workers=8) as ex:
        futs = [ex.submit(mc_run, 'MC_OneShot', cfg, ('NoViolation', 'ForBomOK'), (), None, 1, 3000, True, '4g') for cfg in configs]
        runs = [f.result() for f in futs]
    log('TLC model checking of %d configurations of MC_OneShot in %.1fs' % (len(configs), time.time() - t))
    outdir = '%s/%s/mcreplay_MC_OneShot' % (RUN, rep.prop)
    clean_dir(outdir)
    infile = outdir + '/inputs.ndjson'
    preds = []
    with open(infile, 'w') as f:
        for cfg, r in zip(configs, runs):
            rep.add_mc(r['name'], r, 'Layer I of Encoding::decode* (for_bom, borrow decision, first allocation, decode_to_string loop with reserve, had_errors accumulation) '
                                    'judged by the one-shot rule of the monitor on every input <= MaxBytes over the alphabet')
            run = rep.cov['mc_runs'][-1]
            run['consts'] = cfg
            if r.get('violated') or not r.get('completed'):
                run['model_violation'] = True
                rep.notes.append('MODEL-ALARM %s: %s' % (r['name'], (r.get('error_text') or '')[:1500]))
                log('MODEL-ALARM', r['name'], (r.get('error_text') or '')[:600])
            hs = r.get('hists', [])
            run['inputs'] = len(hs)
            run['predictions_with_second_allocation'] = sum(1 for h in hs for p_ in h['pred'] if p_['allocs'] >= 2)
            for h in hs:
                f.write(json.dumps({'enc': h['enc'], 'input': h['input']}) + '\n')
                preds.append((run, h))
    if not preds:
        return
    st = run_profile(binp, 'oneshot-replay', outdir, 1, 'quick', shards=1, extra=['--in', infile])
    # one shard: the events are in input order, four per input
    results = validate_traces('TraceMisc', split_file(st['files'][0], 16))
    rep.add_trace_results('replay of %d inputs exported by MC_OneShot through the four entry points' % len(preds), 'TraceMisc', results, st)
    handle_trace_violations(rep, results)
    evs = [json.loads(l) for l in open(st['files'][0])]
    drift = {}
    for i, (run, h) in enumerate(preds):
        for j, p_ in enumerate(h['pred']):
            e = evs[4 * i + j] if 4 * i + j < len(evs) else {}
            real = {'out': e.get('out'), 'used': e.get('used'), 'had': e.get('had'), 'none': e.get('none'), 'borrowed': e.get('borrowed'), 'panic': e.get('panic')}
            pred = {k: p_[k] for k in real}
            if pred['none']:
                real['out'] = pred['out'] = []
            if real != pred:
                d = drift.setdefault(id(run), [run, 0, None])
                d[1] += 1
                if d[2] is None:
                    d[2] = {'input': h['input'], 'api': p_['api'], 'predicted': pred, 'real': real}
    for run, h in preds:
        run.setdefault('model_drift_calls', 0)
        run['model_conformant'] = True
    for run, n, first in drift.values():
        run['model_drift_calls'] = n
        run['model_conformant'] = False
        run['first_drift'] = first
        log('MODEL-DRIFT %s: %d predictions differ, first: %s' % (run['model'], n, json.dumps(first)[:600]))


def OEc(enc, alphabet, maxitems):
    return dict(EncName=enc, EncSource='utf8', Alphabet=alphabet, MaxItems=maxitems)


MC_ONESHOT_ENC_QUICK = [
    OEc('windows-1252', [0x61, 0xE9, 0x20AC, 0x3042, 0x410, 0x1F4A9], 4),
    OEc('ISO-2022-JP', [0x61, 0x1B, 0x5C, 0xA5, 0x3042, 0xFF61, 0xE9, 0x1F4A9], 4),
    OEc('Big5', [0x61, 0x4E00, 0x2008A, 0xE9, 0x1F4A9], 5),
    OEc('gb18030', [0x61, 0x80, 0x20AC, 0x4E00, 0x1F4A9], 5),
    OEc('UTF-16LE', [0x61, 0xE9, 0x1F4A9], 4),
    OEc('replacement', [0x61, 0xE9], 4),
    OEc('EUC-KR', [0x61, 0xAC00, 0x4E02, 0xE9, 0x1F4A9], 5),
    OEc('x-user-defined', [0x61, 0x80, 0xF780, 0x1F4A9], 5),
]
MC_ONESHOT_ENC_THOROUGH = MC_ONESHOT_ENC_QUICK + [
    OEc('Shift_JIS', [0x61, 0x5C, 0xA5, 0x203E, 0xFF61, 0x3042, 0x4E02, 0x1F4A9], 5),
    OEc('EUC-JP', [0x61, 0xA5, 0x2212, 0xFF61, 0x3042, 0x4E00, 0x80], 5),
    OEc('IBM866', [0x61, 0x410, 0xE9, 0x3042, 0x10FFFF], 6),
    OEc('windows-1252', [0x61, 0x3042], 10),
    OEc('ISO-2022-JP', [0x61, 0x3042, 0xE9], 8),
]


def run_mc_oneshot_enc(rep, binp, configs):
    """as run_mc_oneshot, for Encoding::encode"""
    import concurrent.futures
    t = time.time()
    with concurrent.futures.ThreadPoolExecutor(max_workers=8) as ex:
        futs = [ex.submit(mc_run, 'MC_OneShotEnc', cfg, ('NoViolation',), (), None, 1, 3000, True, '4g') for cfg in configs]
        runs = [f.result() for f in futs]
    log('TLC model checking of %d configurations of MC_OneShotEnc in %.1fs' % (len(configs), time.time() - t))
    outdir = '%s/%s/mcreplay_MC_OneShotEnc' % (RUN, rep.prop)
    clean_dir(outdir)
    infile = outdir + '/inputs.ndjson'
    preds = []
    with open(infile, 'w') as f:
        for cfg, r in zip(configs, runs):
            rep.add_mc(r['name'], r, 'Layer I of Encoding::encode (output encoding, borrow decisions, first allocation, encode_from_utf8_to_vec loop with reserve_exact, '
                                    'had_errors accumulation) judged by the one-shot rule of the monitor on every text <= MaxItems over the alphabet')
            run = rep.cov['mc_runs'][-1]
            run['consts'] = cfg
            if r.get('violated') or not r.get('completed'):
                run['model_violation'] = True
                rep.notes.append('MODEL-ALARM %s: %s' % (r['name'], (r.get('error_text') or '')[:1500]))
                log('MODEL-ALARM', r['name'], (r.get('error_text') or '')[:600])
            hs = r.get('hists', [])
            run['inputs'] = len(hs)
            run['predictions_with_second_allocation'] = sum(1 for h in hs if h['pred']['allocs'] >= 2)
            for h in hs:
                f.write(json.dumps({'enc': h['enc'], 'text': h['text']}) + '\n')
                preds.append((run, h))
    if not preds:
        return
    st = run_profile(binp, 'oneshot-enc-replay', outdir, 1, 'quick', shards=1, extra=['--in', infile])
    results = validate_traces('TraceMisc', split_file(st['files'][0], 16))
    rep.add_trace_results('replay of %d texts exported by MC_OneShotEnc through Encoding::encode' % len(preds), 'TraceMisc', results, st)
    handle_trace_violations(rep, results)
    evs = [json.loads(l) for l in open(st['files'][0])]
    for run, h in preds:
        run.setdefault('model_drift_calls', 0)
        run.setdefault('model_conformant', True)
    for i, (run, h) in enumerate(preds):
        e = evs[i] if i < len(evs) else {}
        real = {k: e.get(k) for k in ('out', 'used', 'had', 'borrowed', 'panic')}
        pred = {k: h['pred'][k] for k in real}
        if real != pred:
            run['model_drift_calls'] += 1
            if run['model_conformant']:
                run['model_conformant'] = False
                run['first_drift'] = {'text': h['text'], 'predicted': pred, 'real': real}
                log('MODEL-DRIFT %s: first: %s' % (run['model'], json.dumps(run['first_drift'])[:600]))


def split_file(path, n):
    """split an ndjson trace into n files of whole lines (each OD event is its own history)"""
    lines = open(path).read().split('\n')
    lines = [l for l in lines if l]
    out = []
    per = max(1, -(-len(lines) // n))
    for i in range(0, len(lines), per):
        p_ = '%s.part%02d.ndjson' % (path[:-7], i // per)
        open(p_, 'w').write('\n'.join(lines[i:i + per]) + '\n')
        out.append(p_)
    return out


def plan_C13(rep, seed, tier):
    binp = build_harness('default')
    rv(rep, binp, 'labels', seed, tier, shards=32, extra=['--data', SPEC + '/data'])
    r = mc_run('MC_Labels', dict(Alphabet=[9, 10, 11, 12, 13, 32, 0, 65, 97, 117, 56, 45, 58, 47, 128] if tier == 'thorough' else [9, 10, 11, 32, 0, 65, 97, 117, 56, 45, 58, 47, 128],
                                MaxLen=5 if tier == 'thorough' else 4), invariants=('ScannerEqualsStandard',), view=None, workers=8)
    rep.add_mc(r['name'], r, 'Layer I scanner of for_label (three phases, 19-byte cut-off) = get-an-encoding on every byte string of length <= MaxLen over a class alphabet and on the strings around the cut-off')
    if r.get('violated') or not r.get('completed'):
        rep.notes.append('MODEL-ALARM MC_Labels: ' + (r.get('error_text') or '')[:1000])
    rep.cov['rule'] = ('for_label / for_label_no_replacement on: all 228 labels, all names, all case masks (<= 7 letters; 12 in thorough), whitespace/odd-byte paddings, '
                       'over-long and internally modified labels, strings around the 19-byte cut-off, seeded random strings, two-edit mutants; '
                       'single-edit neighbourhood of labels (seed-chosen tenth in quick, all 228 in thorough) by set equality with the spec')


def plan_C14(rep, seed, tier):
    binp = build_harness('default')
    rv(rep, binp, 'mem', seed, tier, shards=32, extra=['--which', 'c14'])
    hooks = build_harness('hooks')
    rv(rep, hooks, 'mem', seed, tier, shards=32, extra=['--which', 'c14', '--force-scalar'], tag='mem-c14-forced-scalar', build='hooks')
    simd = build_harness('simd')
    rv(rep, simd, 'mem', seed, tier, shards=32, extra=['--which', 'c14'], tag='mem-c14-simd', build='simd')
    rep.cov['rule'] = ('validators on recipe inputs: 7 fill patterns x lengths (0..34 and stride edges up to 160; all 0..160 in thorough) x one defect of 26 classes at '
                       'structured positions (every position in thorough) + seeded second defect; each call repeated at 16 start alignments (all must agree)')


def plan_C15(rep, seed, tier):
    binp = build_harness('default')
    rv(rep, binp, 'mem', seed, tier, shards=32, extra=['--which', 'c15', '--thin', '2'] if tier == 'quick' else ['--which', 'c15', '--thin', '10'])
    simd = build_harness('simd')
    rv(rep, simd, 'mem', seed, tier, shards=32, extra=['--which', 'c15', '--thin', '3'] if tier == 'quick' else ['--which', 'c15', '--thin', '14'], tag='mem-c15-simd', build='simd')
    rep.cov['rule'] = ('every convert_* / copy_* / ensure_* / decode_latin1 / encode_latin1_lossy on the recipe inputs of C14; partial forms with destination lengths '
                       '0..5, 7, 8, 15..17, full-3..full+1 and seeded ones; exact output, maximal whole-character read/written, unmodified-beyond-written where documented')


def plan_C16(rep, seed, tier):
    binp = build_harness('default')
    rv(rep, binp, 'mem', seed, tier, shards=32, extra=['--which', 'c16'])
    simd = build_harness('simd')
    rv(rep, simd, 'mem', seed, tier, shards=32, extra=['--which', 'c16'], tag='mem-c16-simd', build='simd')
    rep.cov['exhaustive'] = True
    rep.cov['rule'] = ('is_* / check_*_for_latin1_and_bidi on the recipe inputs (bidi, Latin1 and non-Latin1 fillers, defects incl. RTL characters and invalid UTF-8); '
                       'is_char_bidi over all 1,114,112 values and is_utf16_code_unit_bidi over all 65,536 code units as exact range lists')


def plan_C20(rep, seed, tier):
    binp = build_harness('default')
    rv(rep, binp, 'meta', seed, tier, shards=8)
    rep.cov['exhaustive'] = True
    rep.cov['rule'] = ('for each of the 40 encodings: flags vs truth computed by TLC from Layer S, vs facts measured by exhaustive sweeps of the same build '
                       '(all 1-/2-byte strings + ISO-2022-JP escapes through the decoder, all 1,112,064 scalars through the encoder); 40x40 equality and hash matrices; name() -> for_label')


BEYOND_RE = __import__('re').compile(r'"beyond":(true|false),"post":\[[^\]]*\],')


def plan_C17(rep, seed, tier):
    """the same harness, seed and deterministic corpus linked against each build configuration; one lockstep event per case
    (history / aggregate) carrying the digest of each build's complete observation; TLC judges equality"""
    import hashlib
    builds = [('default', []), ('lessslow', []), ('fastlegacy', []), ('simd', []), ('hooks', ['--force-scalar'])]
    thin = '4' if tier == 'quick' else '1'
    # thorough: the corpus is the thorough-tier one, thinned so that 5 builds x all profiles stay within memory and disk
    # (un-thinned it is 5 x 19 GB of trace and 30 M lockstep cases)
    big, mid = ('4', '4') if tier == 'quick' else ('8', '3')
    corpus = [('enc-sweep', []), ('enc-pairs', ['--thin', thin]), ('dec-whole', ['--thin', mid]), ('dec-random', []), ('enc-random', []),
              ('dec-cutsets', ['--thin', big]), ('enc-cutsets', ['--thin', big]), ('mem', ['--which', 'all', '--thin', mid]),
              ('oneshot', ['--thin', thin if tier == 'quick' else '2'])]
    per_build = {}
    for kind, bextra in builds:
        binp = build_harness(kind)
        cases = {}
        for profile, extra in corpus:
            outdir = '%s/%s/%s/%s' % (RUN, rep.prop, kind, profile)
            clean_dir(outdir)
            st = run_profile(binp, profile, outdir, seed, tier, shards=8, extra=list(extra) + bextra)
            for fpath in st['files']:
                key = None
                hsh = None
                with open(fpath) as f:
                    for line in f:
                        if '"h":' in line[:24]:
                            if key is not None:
                                cases[key] = hsh.hexdigest()[:20]
                            hid = line[line.index('"h":') + 4:].split(',')[0]
                            key = '%s/%s/%s' % (profile, os.path.basename(fpath), hid)
                            hsh = hashlib.sha1()
                        if hsh is not None:
                            if line.startswith('{"ev":"M"'):
                                # bytes beyond `written` are not a logical result (C17 statement): not part of the observation
                                line = BEYOND_RE.sub('', line)
                            hsh.update(line.encode())
                if key is not None:
                    cases[key] = hsh.hexdigest()[:20]
        per_build[kind] = cases
        log('C17 build %s: %d cases' % (kind, len(cases)))
    # merge into lockstep events
    outdir = '%s/%s/lockstep' % (RUN, rep.prop)
    clean_dir(outdir)
    keys = sorted(per_build['default'])
    nsh = 16
    files = [open('%s/lock_%03d.ndjson' % (outdir, i), 'w') for i in range(nsh)]
    for i, k in enumerate(keys):
        obs = [per_build[b].get(k, 'missing') for b, _ in builds]
        files[i % nsh].write(json.dumps({'ev': 'LK', 'h': i + 1, 'case': k, 'obs': obs}, separators=(',', ':')) + '\n')
    extra_cases = sum(1 for b, _ in builds for k in per_build[b] if k not in per_build['default'])
    for f in files:
        f.close()
    paths = ['%s/lock_%03d.ndjson' % (outdir, i) for i in range(nsh)]
    paths = [p_ for p_ in paths if os.path.getsize(p_) > 0]
    results = validate_traces('TraceLock', paths)
    rep.add_trace_results('lockstep over builds %s' % ','.join(b for b, _ in builds), 'TraceLock', results, {'wall_s': None})
    rep.cov['lockstep_cases'] = len(keys)
    rep.cov['builds'] = [b for b, _ in builds]
    rep.sample_from(paths[0], n=2)
    if extra_cases:
        raise ToolError('C17: %d cases exist in some build but not in the default build (harness not deterministic?)' % extra_cases)
    # violations: write the differing case of every build into the replay file
    os.makedirs(RUN + '/replay', exist_ok=True)
    for r in results:
        for v in r.get('viol', []):
            evs = extract_history(r['file'], v['h'])
            case = json.loads(evs[0])['case'] if evs else '?'
            profile, fname, hid = case.split('/')
            path = '%s/replay/C17_%s.ndjson' % (RUN, case.replace('/', '_'))
            with open(path, 'w') as out:
                out.write(evs[0] + '\n' if evs else '')
                for b, _ in builds:
                    src = '%s/%s/%s/%s/%s' % (RUN, rep.prop, b, profile, fname)
                    for l in extract_history(src, int(hid))[:40]:
                        out.write(json.dumps({'build': b, 'line': json.loads(l)}) + '\n')
            if len(rep.violations) < 20:
                rep.violations.append(('C17', v['tag'], path))
    if not rep.violations:
        for b, _ in builds[1:]:
            shutil.rmtree('%s/%s/%s' % (RUN, rep.prop, b), ignore_errors=True)
    rep.cov['rule'] = ('builds {default, less-slow-kanji+big5+gb, fast-legacy-encode, simd-accel+std (nightly), verif switch forcing scalar UTF-8 validation} x '
                       'deterministic corpus: every scalar through every encoder from both sources (astral stride 16 in quick), ordered pairs, whole-stream decodes incl. all 2-byte strings, '
                       'seeded decoder/encoder histories, cut sets, mem/validator recipes, one-shot API; one lockstep case per history/aggregate')


PLANS = {
    'C01': plan_C01, 'C02': plan_C02, 'C03': plan_C03, 'C04': plan_C04, 'C05': plan_C05, 'C06': plan_C06, 'C07': plan_C07,
    'C08': plan_C08, 'C09': plan_C09, 'C10': plan_C10, 'C12': plan_C12, 'C18': plan_C18, 'C19': plan_C19,
    'C17': plan_C17, 'C11': plan_C11, 'C13': plan_C13, 'C14': plan_C14, 'C15': plan_C15, 'C16': plan_C16, 'C20': plan_C20,
}


def run_plan(prop, seed, tier):
    rep = Report(prop, tier, seed)
    rep.assumptions = list(COMMON_ASSUMPTIONS)
    clean_dir('%s/%s' % (RUN, prop))
    PLANS[prop](rep, seed, tier)
    return rep.finish()
