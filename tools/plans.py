"""Per-property check plans: which traces are recorded from the real code, which TLA+ trace spec
validates them, and which TLC model-checking runs of the specification accompany them."""
import json, os, sys, time
from vlib import *

# spec used for each harness profile
PROFILE_SPEC = {
    'dec-whole': 'TraceDec', 'dec-cutsets': 'TraceDec', 'dec-random': 'TraceDec', 'dec-bom': 'TraceDec',
    'dec-replay': 'TraceDec',
    'enc-sweep': 'TraceEnc', 'enc-pairs': 'TraceEnc', 'enc-cutsets': 'TraceEnc', 'enc-random': 'TraceEnc', 'enc-replay': 'TraceEnc',
}


def record_and_validate(rep, binp, profile, seed, tier, extra=(), shards=None, build='default'):
    outdir = '%s/%s/%s' % (RUN, rep.prop, profile)
    clean_dir(outdir)
    st = run_profile(binp, profile, outdir, seed, tier, shards=shards, extra=extra)
    spec = PROFILE_SPEC[profile]
    results = validate_traces(spec, st['files'])
    rep.add_trace_results(profile, spec, results, st)
    if st['files']:
        rep.sample_from(st['files'][0], n=1)
    handle_trace_violations(rep, results)
    return results


def dev(profile, spec, extra, seed, tier):
    binp = build_harness('default')
    rep = Report('DEV', tier, seed)
    outdir = '%s/dev/%s' % (RUN, profile)
    clean_dir(outdir)
    st = run_profile(binp, profile, outdir, seed, tier, extra=extra)
    results = validate_traces(spec, st['files'])
    from collections import Counter
    c = Counter()
    ex = {}
    for r in results:
        for v in r['viol']:
            c[v['tag']] += 1
            ex.setdefault(v['tag'], (r['file'], v))
    print('histories', sum(r['histories'] for r in results), 'judged', sum(r['judged'] for r in results), 'events',
          sum(r['events'] for r in results))
    for t, n in c.most_common():
        f, v = ex[t]
        print('==', t, n, 'e.g. h=%s k=%s in %s' % (v['h'], v['k'], os.path.basename(f)))
        for l in extract_history(f, v['h'])[:12]:
            print('    ', l[:400])
    return 0


def replay(path):
    """re-drive the caller plan of a recorded history on the real code built from /repo's working tree and
    validate the fresh trace with the trace spec"""
    lines = [l for l in open(path).read().split('\n') if l.strip()]
    meta = None
    if lines and '"ev":"VIOLATION"' in lines[-1]:
        meta = json.loads(lines[-1])
        lines = lines[:-1]
    first = json.loads(lines[0])
    plan = first if first.get('ev') == 'PLAN' else history_to_plan(lines)
    if plan is None:
        # aggregate events (sweeps) are re-recorded by re-running the owning check
        print('this replay file holds an aggregate event; re-run the owning check to reproduce it')
        for l in lines[:3]:
            print('   ', l[:300])
        return 2
    kind = plan['kind']
    outdir = RUN + '/replay/_tmp'
    clean_dir(outdir)
    src = outdir + '/plan.ndjson'
    open(src, 'w').write(json.dumps(plan) + '\n')
    binp = build_harness('default')
    st = run_profile(binp, kind + '-replay', outdir, 1, 'quick', shards=1, extra=['--in', src])
    r = validate_trace(PROFILE_SPEC[kind + '-replay'], st['files'][0])
    print(json.dumps({'recorded': meta, 'revalidated_viol': r['viol']}, indent=1))
    for l in open(st['files'][0]):
        print('   ', l.strip()[:300])
    if r['viol']:
        print('VIOLATION property=%s replay=%s tag=%s' % (owner_of(r['viol'][0]['tag'], 'C00'), path, r['viol'][0]['tag']))
    return 1 if r['viol'] else 0


COMMON_ASSUMPTIONS = [
    'index data = snapshot under spec/data derived from the repository test fixtures and Python codec tables (DESIGN.md 3.1)',
    'TLC 1.8.0 evaluates the TLA+ definitions correctly; the Rust harness records arguments and results faithfully',
]


def plan_C01(rep, seed, tier):
    binp = build_harness('default')
    record_and_validate(rep, binp, 'dec-whole', seed, tier, shards=32 if tier == 'thorough' else 16)
    rep.cov['rule'] = ('whole-stream decodes through decode_to_utf8/utf16 with and without replacement: every 1-byte string x 40 encodings x 4 forms; '
                       'every 2-byte string for the 12 multi-byte/stateful encodings (+ seed-rotated single-byte ones; all 40 in thorough); '
                       'all 3/4-byte strings over per-encoding class alphabets; EUC-JP 8F xx yy, gb18030 four-byte range pointers; seeded grammar strings')


PLANS = {
    'C01': plan_C01,
}


def run_plan(prop, seed, tier):
    rep = Report(prop, tier, seed)
    rep.assumptions = list(COMMON_ASSUMPTIONS)
    clean_dir('%s/%s' % (RUN, prop))
    PLANS[prop](rep, seed, tier)
    return rep.finish()
