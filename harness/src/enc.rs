// Encoder drivers: execute call histories against the real Encoder API and record one ndjson event
// per call.  Texts are sequences of "items": scalar values, or lone surrogates (UTF-16 source only).
use crate::util::*;
use encoding_rs::*;
use std::fmt::Write as FmtWrite;
use std::panic::{catch_unwind, AssertUnwindSafe};

#[derive(Clone, Copy, PartialEq, Debug)]
pub enum Source {
    Utf8,
    Utf16,
}
#[derive(Clone, Copy, PartialEq, Debug)]
pub enum ESink {
    Slice,
    Vec_,
}

#[derive(Clone, PartialEq, Debug, Default)]
pub struct EObs {
    pub res: char, // I O U P
    pub um: u32,
    pub read: usize,
    pub written: usize,
    pub out: Vec<u8>,
    pub had: bool,
    pub pre: Vec<u8>,
    pub post: Vec<u8>,
    pub same: bool,
    pub guard: bool,
    pub cap: usize,
}

fn coder(r: CoderResult) -> char {
    match r {
        CoderResult::InputEmpty => 'I',
        CoderResult::OutputFull => 'O',
    }
}
fn encres(r: EncoderResult) -> (char, u32) {
    match r {
        EncoderResult::InputEmpty => ('I', 0),
        EncoderResult::OutputFull => ('O', 0),
        EncoderResult::Unmappable(c) => ('U', c as u32),
    }
}

pub enum Src<'a> {
    U8(&'a str),
    U16(&'a [u16]),
}

pub fn call(e: &mut Encoder, sink: ESink, repl: bool, src: &Src, cap: usize, last: bool, fill: u8, prelen: usize) -> EObs {
    let mut o = EObs { same: true, guard: true, cap, ..Default::default() };
    match sink {
        ESink::Slice => {
            let mut g = Guarded::<u8>::new(cap, fill, CANARY);
            let r = catch_unwind(AssertUnwindSafe(|| {
                let dst = g.slice();
                match (src, repl) {
                    (Src::U8(s), true) => {
                        let (r, rd, wr, had) = e.encode_from_utf8(s, dst, last);
                        (coder(r), 0, rd, wr, had)
                    }
                    (Src::U8(s), false) => {
                        let (r, rd, wr) = e.encode_from_utf8_without_replacement(s, dst, last);
                        let (c, u) = encres(r);
                        (c, u, rd, wr, false)
                    }
                    (Src::U16(s), true) => {
                        let (r, rd, wr, had) = e.encode_from_utf16(s, dst, last);
                        (coder(r), 0, rd, wr, had)
                    }
                    (Src::U16(s), false) => {
                        let (r, rd, wr) = e.encode_from_utf16_without_replacement(s, dst, last);
                        let (c, u) = encres(r);
                        (c, u, rd, wr, false)
                    }
                }
            }));
            o.guard = g.intact();
            match r {
                Ok((c, u, rd, wr, had)) => {
                    o.res = c;
                    o.um = u;
                    o.read = rd;
                    o.written = wr;
                    o.had = had;
                    o.out = g.get()[..wr.min(cap)].to_vec();
                }
                Err(_) => o.res = 'P',
            }
        }
        ESink::Vec_ => {
            let mut v: Vec<u8> = Vec::with_capacity(prelen + cap);
            for i in 0..prelen {
                v.push(b'a' + (i % 26) as u8);
            }
            let real_cap = v.capacity() - v.len();
            o.cap = real_cap;
            unsafe {
                let p = v.as_mut_ptr().add(v.len());
                std::ptr::write_bytes(p, fill, real_cap);
            }
            o.pre = v.clone();
            let ptr = v.as_ptr();
            let capacity = v.capacity();
            let r = catch_unwind(AssertUnwindSafe(|| match (src, repl) {
                (Src::U8(s), true) => {
                    let (r, rd, had) = e.encode_from_utf8_to_vec(s, &mut v, last);
                    (coder(r), 0, rd, had)
                }
                (Src::U8(s), false) => {
                    let (r, rd) = e.encode_from_utf8_to_vec_without_replacement(s, &mut v, last);
                    let (c, u) = encres(r);
                    (c, u, rd, false)
                }
                _ => panic!("no Vec sink for UTF-16 sources"),
            }));
            o.same = v.as_ptr() == ptr && v.capacity() == capacity;
            o.post = v.clone();
            match r {
                Ok((c, u, rd, had)) => {
                    o.res = c;
                    o.um = u;
                    o.read = rd;
                    o.written = v.len().saturating_sub(prelen);
                    o.had = had;
                    o.out = v[prelen.min(v.len())..].to_vec();
                }
                Err(_) => o.res = 'P',
            }
        }
    }
    o
}

/// The documented manual procedure (C09) on the units the with-replacement call consumed: the caller's own loop over
/// the without-replacement method with an ample buffer, appending "&#" decimal ";" for every Unmappable result.
/// res 'X' = the without-replacement method reported OutputFull although the buffer is ample.
pub fn call_manual(e: &mut Encoder, src: &Src, last: bool) -> EObs {
    let n = match src {
        Src::U8(s) => s.len(),
        Src::U16(s) => s.len(),
    };
    let mut o = EObs { same: true, guard: true, cap: 8 * n + 64, ..Default::default() };
    loop {
        let rest = match src {
            Src::U8(s) => Src::U8(&s[o.read.min(n)..]),
            Src::U16(s) => Src::U16(&s[o.read.min(n)..]),
        };
        let c = call(e, ESink::Slice, false, &rest, 8 * n + 64, last, 0x5A, 0);
        o.guard &= c.guard;
        if c.res == 'P' {
            o.res = 'P';
            return o;
        }
        o.read += c.read;
        o.out.extend_from_slice(&c.out);
        match c.res {
            'U' => {
                o.had = true;
                o.out.extend_from_slice(format!("&#{};", c.um).as_bytes());
            }
            'O' => {
                o.res = 'X';
                return o;
            }
            r => {
                o.res = r;
                o.written = o.out.len();
                return o;
            }
        }
    }
}

pub fn query(e: &Encoder, source: Source, repl: bool, n: usize) -> Option<usize> {
    let r = catch_unwind(AssertUnwindSafe(|| match (source, repl) {
        (Source::Utf8, true) => e.max_buffer_length_from_utf8_if_no_unmappables(n),
        (Source::Utf8, false) => e.max_buffer_length_from_utf8_without_replacement(n),
        (Source::Utf16, true) => e.max_buffer_length_from_utf16_if_no_unmappables(n),
        (Source::Utf16, false) => e.max_buffer_length_from_utf16_without_replacement(n),
    }));
    r.unwrap_or(None)
}

#[derive(Clone, Copy, Debug)]
pub enum CapSpec {
    Fixed(usize),
    Query(usize),
}

#[derive(Clone)]
pub struct EHistCfg {
    pub enc: &'static Encoding,
    pub source: Source,
    pub sink: ESink,
    pub repl: bool,
    pub twins: bool,
    pub prelen: usize,
}

/// a text prepared for one source form: the units and the unit offset of every item boundary
pub struct Text {
    pub u8s: String,
    pub u16s: Vec<u16>,
    pub bounds: Vec<usize>, // bounds[i] = unit offset of item i; last = total units
}

pub fn prepare(items: &[u32], source: Source) -> Text {
    let mut t = Text { u8s: String::new(), u16s: Vec::new(), bounds: vec![0] };
    for &it in items {
        match source {
            Source::Utf8 => {
                let c = char::from_u32(it).unwrap_or('\u{FFFD}');
                t.u8s.push(c);
                t.bounds.push(t.u8s.len());
            }
            Source::Utf16 => {
                if it >= 0x10000 {
                    let v = it - 0x10000;
                    t.u16s.push(0xD800 + (v >> 10) as u16);
                    t.u16s.push(0xDC00 + (v & 0x3FF) as u16);
                } else {
                    t.u16s.push(it as u16);
                }
                t.bounds.push(t.u16s.len());
            }
        }
    }
    t
}

pub struct EHist<'a> {
    pub cfg: &'a EHistCfg,
    pub encs: Vec<Encoder>,
    pub man: Option<Encoder>, // twin driven by the manual procedure (--manual, replacement histories)
    pub pos: usize, // consumed units
    pub calls: usize,
    pub dead: bool,
    line: String,
}

fn eobs_json(s: &mut String, o: &EObs) {
    let _ = write!(s, "\"res\":\"{}\",\"um\":{},\"read\":{},\"written\":{},\"out\":", o.res, o.um, o.read, o.written);
    js_u8(s, &o.out);
}

impl<'a> EHist<'a> {
    pub fn begin(sh: &mut Shards, cfg: &'a EHistCfg, bound: bool) -> EHist<'a> {
        let h = sh.begin();
        let n = if cfg.twins { 3 } else { 1 };
        let encs = (0..n).map(|_| cfg.enc.new_encoder()).collect();
        sh.line(&format!(
            "{{\"ev\":\"NE\",\"h\":{},\"enc\":\"{}\",\"source\":\"{}\",\"sink\":\"{}\",\"repl\":{},\"bound\":{}}}",
            h,
            cfg.enc.name(),
            if cfg.source == Source::Utf8 { "utf8" } else { "utf16" },
            if cfg.sink == ESink::Slice { "slice" } else { "vec" },
            cfg.repl,
            bound
        ));
        let man = if ov().manual && cfg.repl { Some(cfg.enc.new_encoder()) } else { None };
        EHist { cfg, encs, man, pos: 0, calls: 0, dead: false, line: String::new() }
    }

    /// one call with src = units[pos..end] (end = a unit offset on an item boundary)
    pub fn step(&mut self, sh: &mut Shards, text: &Text, end: usize, capspec: CapSpec, last: bool) -> EObs {
        let cfg = self.cfg;
        let total = *text.bounds.last().unwrap();
        let end = end.max(self.pos).min(total);
        let src = match cfg.source {
            Source::Utf8 => Src::U8(&text.u8s[self.pos..end]),
            Source::Utf16 => Src::U16(&text.u16s[self.pos..end]),
        };
        let n = end - self.pos;
        let (cap, q) = match capspec {
            CapSpec::Fixed(c) => (c, false),
            CapSpec::Query(extra) => match query(&self.encs[0], cfg.source, cfg.repl, n) {
                Some(v) if v < (1 << 24) => (v + extra, true),
                _ => (if cfg.repl { 14 } else { 4 }, false),
            },
        };
        let fills = [0x00u8, 0xFF, 0xA5];
        let mut obs: Vec<EObs> = Vec::new();
        for (i, e) in self.encs.iter_mut().enumerate() {
            obs.push(call(e, cfg.sink, cfg.repl, &src, cap, last, fills[i], cfg.prelen));
        }
        let o = obs[0].clone();
        let pending = catch_unwind(AssertUnwindSafe(|| self.encs[0].has_pending_state())).unwrap_or(false);
        let man = match self.man.as_mut() {
            Some(e) if o.res != 'P' && o.read <= n => {
                let consumed = match cfg.source {
                    Source::Utf8 if text.u8s.is_char_boundary(self.pos + o.read) => Some(Src::U8(&text.u8s[self.pos..self.pos + o.read])),
                    Source::Utf8 => None,
                    Source::Utf16 => Some(Src::U16(&text.u16s[self.pos..self.pos + o.read])),
                };
                consumed.map(|c| call_manual(e, &c, last && o.res == 'I'))
            }
            _ => None,
        };
        let s = &mut self.line;
        s.clear();
        s.push_str("{\"ev\":\"E\",\"src\":");
        match src {
            Src::U8(x) => js_u8(s, x.as_bytes()),
            Src::U16(x) => js_u16(s, x),
        }
        let _ = write!(s, ",\"cap\":{},\"last\":{},", o.cap, last);
        eobs_json(s, &o);
        let _ = write!(s, ",\"had\":{},\"pending\":{},\"q\":{},\"guard\":{},\"alt\":[", o.had, pending, q, obs.iter().all(|x| x.guard));
        for (i, a) in obs[1..].iter().enumerate() {
            if i > 0 {
                s.push(',');
            }
            s.push('{');
            eobs_json(s, a);
            s.push('}');
        }
        s.push(']');
        if let Some(mo) = &man {
            let _ = write!(s, ",\"man\":{{\"res\":\"{}\",\"had\":{},\"out\":", mo.res, mo.had);
            js_u8(s, &mo.out);
            s.push('}');
            if mo.res != 'I' {
                self.man = None;
            }
        } else if self.man.is_some() {
            self.man = None; // the twin cannot follow (panic or a read that is not on a character boundary)
        }
        if cfg.sink == ESink::Vec_ {
            s.push_str(",\"pre\":");
            js_u8(s, &o.pre);
            s.push_str(",\"post\":");
            js_u8(s, &o.post);
            let _ = write!(s, ",\"same\":{}", o.same);
        }
        s.push('}');
        sh.line(s);
        self.calls += 1;
        if o.res == 'P' {
            self.dead = true;
        } else {
            self.pos += o.read.min(n);
        }
        o
    }

    pub fn fault(&mut self, sh: &mut Shards, kind: &str) {
        sh.line(&format!("{{\"ev\":\"F\",\"kind\":\"{}\"}}", kind));
        self.dead = true;
    }
}

pub fn overridden(cfg: &EHistCfg) -> EHistCfg {
    let o = ov();
    let mut c = cfg.clone();
    if let Some(x) = o.repl {
        c.repl = x;
    }
    if o.twins {
        c.twins = true;
    }
    c
}
pub fn cap_override_i(repl: bool, c: CapSpec, i: usize, salt: usize) -> CapSpec {
    if ov().cap.as_deref() == Some("mixq") {
        let m = if repl { 14 } else { 4 };
        if (i + salt) % 2 == 0 {
            CapSpec::Fixed((salt / 2 + i / 2) % (m + 2))
        } else {
            CapSpec::Query(0)
        }
    } else {
        cap_override(repl, c)
    }
}
pub fn cap_override(repl: bool, c: CapSpec) -> CapSpec {
    let m = if repl { 14 } else { 4 };
    match ov().cap.as_deref() {
        Some("min") => CapSpec::Fixed(m),
        Some("min1") => CapSpec::Fixed(m + 1),
        Some("query") => CapSpec::Query(0),
        _ => c,
    }
}

/// documented caller loop; chunk_items = item indices where chunks end
pub fn run_chunked(sh: &mut Shards, cfg: &EHistCfg, items: &[u32], chunk_items: &[usize], caps: &mut dyn FnMut(usize) -> CapSpec, empty_last: bool) {
    if thinned() {
        return;
    }
    let old_min: usize = if cfg.repl { 14 } else { 4 };
    let cfg = &overridden(cfg);
    let repl = cfg.repl;
    let new_min: usize = if repl { 14 } else { 4 };
    let caps0 = caps;
    let salt = rot();
    // capacities are meant relative to the documented minimum: keep that when replacement is overridden
    let mut caps = |i: usize| {
        cap_override_i(
            repl,
            match caps0(i) {
                CapSpec::Fixed(c) => CapSpec::Fixed((c + new_min).saturating_sub(old_min)),
                q => q,
            },
            i,
            salt,
        )
    };
    let text = prepare(items, cfg.source);
    let mut h = EHist::begin(sh, cfg, true);
    let total = *text.bounds.last().unwrap();
    let limit = 8 * total + 64;
    let mut ends: Vec<usize> = chunk_items.iter().map(|&i| text.bounds[i.min(items.len())]).collect();
    if ends.last() != Some(&total) {
        ends.push(total);
    }
    let nchunks = ends.len();
    for (ci, &e) in ends.iter().enumerate() {
        let last = ci + 1 == nchunks && !empty_last;
        loop {
            if h.calls > limit {
                h.fault(sh, "livelock");
                return;
            }
            let c = caps(h.calls);
            let o = h.step(sh, &text, e, c, last);
            if h.dead {
                return;
            }
            if o.res == 'I' {
                break;
            }
        }
    }
    if empty_last {
        loop {
            if h.calls > limit {
                h.fault(sh, "livelock");
                return;
            }
            let c = caps(h.calls);
            let o = h.step(sh, &text, total, c, true);
            if h.dead {
                return;
            }
            if o.res == 'I' {
                break;
            }
        }
    }
}

/// random driver: arbitrary re-cuts on item boundaries, capacities, queries
pub fn run_random(sh: &mut Shards, cfg: &EHistCfg, items: &[u32], rng: &mut Rng, maxchunk: usize, capmax: usize) {
    if thinned() {
        return;
    }
    let cfg = &overridden(cfg);
    let text = prepare(items, cfg.source);
    let mut h = EHist::begin(sh, cfg, false);
    let total = *text.bounds.last().unwrap();
    let limit = 8 * total + 64;
    let minc = if cfg.repl { 14 } else { 4 };
    let mut eos = false;
    loop {
        if h.calls > limit {
            return;
        }
        // current item index = the boundary at pos (pos always lands on a boundary for a correct encoder)
        let cur = match text.bounds.binary_search(&h.pos) {
            Ok(i) => i,
            Err(_) => return, // read fell inside a character: the monitor reports it
        };
        let (end, last) = if eos {
            (total, true)
        } else {
            let ei = (cur + rng.below(maxchunk + 1)).min(items.len());
            let e = text.bounds[ei];
            (e, e == total && rng.chance(1, 2))
        };
        let c = match rng.below(10) {
            0 => CapSpec::Query(0),
            1 => CapSpec::Query(rng.below(3)),
            2 => CapSpec::Fixed(minc + capmax + 64),
            _ => CapSpec::Fixed(minc + rng.below(capmax + 1)),
        };
        let c = cap_override(cfg.repl, c);
        let o = h.step(sh, &text, end, c, last);
        if last {
            eos = true;
        }
        if h.dead {
            return;
        }
        if o.res == 'I' && last {
            return;
        }
    }
}

/// Execute caller plans on the real encoders (see dec::replay).  stream = items (scalars / lone surrogates),
/// calls = [[end item index, cap, last], ..].
pub fn replay(sh: &mut Shards, path: &str) {
    use serde_json::Value;
    let text = std::fs::read_to_string(path).expect("plan file");
    for l in text.lines() {
        let v: Value = match serde_json::from_str(l) {
            Ok(v) => v,
            Err(_) => continue,
        };
        if v["ev"].as_str() != Some("PLAN") || v["kind"].as_str() != Some("enc") {
            continue;
        }
        let e = crate::inputs::enc(v["enc"].as_str().unwrap());
        let source = if v["source"].as_str().unwrap() == "utf8" { Source::Utf8 } else { Source::Utf16 };
        let sink = if v["sink"].as_str().unwrap() == "vec" { ESink::Vec_ } else { ESink::Slice };
        let cfg = EHistCfg { enc: e, source, sink, repl: v["repl"].as_bool().unwrap(), twins: false, prelen: v["prelen"].as_u64().unwrap_or(0) as usize };
        let items: Vec<u32> = v["stream"].as_array().unwrap().iter().map(|x| x.as_u64().unwrap() as u32).collect();
        let text = prepare(&items, source);
        let total = *text.bounds.last().unwrap();
        let mut h = EHist::begin(sh, &cfg, false);
        let limit = 8 * total + 64;
        let minc = if cfg.repl { 14 } else { 4 };
        let mut lastcap = minc;
        let mut finished = false;
        for c in v["calls"].as_array().unwrap() {
            let endi = (c[0].as_u64().unwrap() as usize).min(items.len());
            // a negative capacity means "the value the matching max_*_buffer_length query returns now"
            let capi = c[1].as_i64().unwrap();
            let cap = if capi < 0 { lastcap } else { capi as usize };
            let last = c[2].as_bool().unwrap();
            lastcap = cap;
            let o = h.step(sh, &text, text.bounds[endi], if capi < 0 { CapSpec::Query(0) } else { CapSpec::Fixed(cap) }, last);
            if h.dead {
                break;
            }
            if o.res == 'I' && last {
                finished = true;
                break;
            }
        }
        while !finished && !h.dead && v["finish"].as_bool().unwrap_or(true) {
            if h.calls > limit {
                h.fault(sh, "livelock");
                break;
            }
            let o = h.step(sh, &text, total, CapSpec::Fixed(lastcap.max(minc)), true);
            if o.res == 'I' {
                finished = true;
            }
        }
    }
}
