// Non-streaming API drivers: labels (C13), one-shot decode/encode (C11), metadata (C20), for_bom (C10).
use crate::inputs::*;
use crate::util::*;
use crate::Ctx;
use encoding_rs::*;
use std::borrow::Cow;
use std::fmt::Write as FmtWrite;
use std::panic::{catch_unwind, AssertUnwindSafe};

fn label_res(b: &[u8]) -> (String, String) {
    let r = catch_unwind(AssertUnwindSafe(|| Encoding::for_label(b).map(|e| e.name().to_string()).unwrap_or_default())).unwrap_or_else(|_| "!".to_string());
    let n = catch_unwind(AssertUnwindSafe(|| Encoding::for_label_no_replacement(b).map(|e| e.name().to_string()).unwrap_or_default()))
        .unwrap_or_else(|_| "!".to_string());
    (r, n)
}

struct LabelBatch {
    line: String,
    count: usize,
}
impl LabelBatch {
    fn new() -> LabelBatch {
        LabelBatch { line: String::new(), count: 0 }
    }
    fn push(&mut self, cx: &mut Ctx, b: &[u8]) {
        let (r, n) = label_res(b);
        if self.count > 0 {
            self.line.push(',');
        }
        self.line.push_str("{\"b\":");
        js_u8(&mut self.line, b);
        let _ = write!(self.line, ",\"r\":\"{}\",\"n\":\"{}\"}}", r, n);
        self.count += 1;
        if self.count >= 300 {
            self.flush(cx);
        }
    }
    fn flush(&mut self, cx: &mut Ctx) {
        if self.count == 0 {
            return;
        }
        let h = cx.sh.begin();
        let s = format!("{{\"ev\":\"LL\",\"h\":{},\"items\":[{}]}}", h, self.line);
        cx.sh.line(&s);
        self.line.clear();
        self.count = 0;
    }
}

fn load_labels(data: &str) -> Vec<Vec<u8>> {
    let text = std::fs::read_to_string(format!("{}/labels.json", data)).expect("labels.json");
    let v: serde_json::Value = serde_json::from_str(&text).unwrap();
    v["labels"].as_array().unwrap().iter().map(|l| l["label"].as_array().unwrap().iter().map(|x| x.as_u64().unwrap() as u8).collect()).collect()
}

pub fn labels(cx: &mut Ctx, data: &str) {
    let labels = load_labels(data);
    let mut lb = LabelBatch::new();
    // exact labels, names, trivial strings
    for l in labels.iter() {
        lb.push(cx, l);
    }
    for e in ALL.iter() {
        lb.push(cx, e.name().as_bytes());
    }
    for s in [&b""[..], b" ", b"\t\n\x0c\r ", b"\x0b", b"\x00", b"utf-8\x00", b"\x00utf-8", b"ut f-8", b"utf\t-8", b"\xa0utf-8", b"utf-8\xa0", b"\x85utf-8", b"utf-8\x0b", b"\x0butf-8", b"\xffutf-8", b"utf-8\x80"] {
        lb.push(cx, s);
    }
    // case masks
    for l in labels.iter() {
        let letters: Vec<usize> = (0..l.len()).filter(|&i| l[i].is_ascii_lowercase()).collect();
        let k = letters.len();
        let total: u64 = 1u64 << k.min(40);
        let full = k <= if cx.thorough { 12 } else { 7 };
        let n = if full { total } else { if cx.thorough { 2048 } else { 96 } };
        for j in 0..n {
            let mask = if full { j } else { cx.rng.next() % total };
            let mut s = l.clone();
            for (bi, &pos) in letters.iter().enumerate() {
                if mask & (1 << bi) != 0 {
                    s[pos] = s[pos].to_ascii_uppercase();
                }
            }
            lb.push(cx, &s);
        }
    }
    // whitespace paddings: every pair (prefix, suffix) over a set of candidate pads
    let pads: Vec<Vec<u8>> = vec![vec![], vec![9], vec![10], vec![11], vec![12], vec![13], vec![32], vec![0], vec![0xA0], vec![0x85], vec![32, 9], vec![13, 10], vec![32, 11], vec![0x1C], vec![0xC2, 0xA0], vec![0xE2, 0x80, 0x83]];
    // every label meets a small core of paddings; a seed-rotated quarter (all in thorough) meets every pair
    let core_pads: Vec<Vec<u8>> = vec![vec![], vec![32], vec![9], vec![10], vec![12], vec![13], vec![11], vec![32, 11], vec![0]];
    for (li, l) in labels.iter().enumerate() {
        let full = cx.thorough || (li + cx.seed as usize) % 4 == 0;
        let pl = if full { &pads } else { &core_pads };
        for p in pl.iter() {
            for q in pl.iter() {
                let mut s = p.clone();
                s.extend(l);
                s.extend(q);
                lb.push(cx, &s);
            }
        }
    }
    // over-long / long padded / internal changes
    for (li, l) in labels.iter().enumerate() {
        for k in [1usize, 2, 5, 19, 20, 40] {
            let mut s = l.clone();
            s.extend(std::iter::repeat(b'x').take(k));
            lb.push(cx, &s);
            let mut s: Vec<u8> = std::iter::repeat(b' ').take(k * 7).collect();
            s.extend(l);
            s.extend(std::iter::repeat(b'\n').take(k * 5));
            lb.push(cx, &s);
            let mut s: Vec<u8> = std::iter::repeat(b'x').take(k).collect();
            s.extend(l);
            lb.push(cx, &s);
        }
        if l.len() >= 2 {
            let mid = 1 + li % (l.len() - 1);
            for c in [b' ', b'\t', 0u8, b'-', b'_'] {
                let mut s = l.clone();
                s.insert(mid, c);
                lb.push(cx, &s);
            }
        }
    }
    // strings of length 17..21 around the 19-byte cut-off, built from label characters
    let alphabet: Vec<u8> = b"abcdefghijklmnopqrstuvwxyz0123456789-_:.ABCXYZ".to_vec();
    for len in 15..=24usize {
        for _ in 0..if cx.thorough { 400 } else { 60 } {
            let mut s: Vec<u8> = (0..len).map(|_| *cx.rng.pick(&alphabet)).collect();
            // half of them end in a real label suffix so that near-misses of long labels are produced
            if cx.rng.chance(1, 2) {
                let l = cx.rng.pick(&labels).clone();
                if l.len() <= len {
                    let start = len - l.len();
                    s[start..].copy_from_slice(&l);
                }
            }
            lb.push(cx, &s);
        }
    }
    // seeded random strings over the label alphabet (plus whitespace and odd bytes) up to length 24
    let mut alpha2 = alphabet.clone();
    alpha2.extend_from_slice(&[9, 10, 12, 13, 32, 0, 0x80, 0xFF, 11]);
    for _ in 0..if cx.thorough { 200000 } else { 20000 } {
        let len = cx.rng.below(25);
        let s: Vec<u8> = (0..len).map(|_| *cx.rng.pick(&alpha2)).collect();
        lb.push(cx, &s);
    }
    // mutated labels with two edits
    for _ in 0..if cx.thorough { 100000 } else { 10000 } {
        let mut s = cx.rng.pick(&labels).clone();
        for _ in 0..2 {
            match cx.rng.below(3) {
                0 if !s.is_empty() => {
                    let i = cx.rng.below(s.len());
                    s[i] = *cx.rng.pick(&alpha2);
                }
                1 => {
                    let i = cx.rng.below(s.len() + 1);
                    s.insert(i, *cx.rng.pick(&alpha2));
                }
                _ if !s.is_empty() => {
                    let i = cx.rng.below(s.len());
                    s.remove(i);
                }
                _ => {}
            }
        }
        lb.push(cx, &s);
    }
    lb.flush(cx);
    // single-edit neighbourhoods (set equality): quick = seed-chosen 24 labels, thorough = all
    for (li, l) in labels.iter().enumerate() {
        if !cx.thorough && (li + cx.seed as usize) % 10 != 0 {
            continue;
        }
        let ll = l.len();
        let mut cases = 0usize;
        let mut hits: Vec<(Vec<u8>, String, String)> = Vec::new();
        let mut odd = 0usize;
        let mut visit = |s: &[u8], cases: &mut usize| {
            *cases += 1;
            let (r, n) = label_res(s);
            if !r.is_empty() {
                if !hits.iter().any(|h| h.0 == s) {
                    hits.push((s.to_vec(), r, n));
                }
            } else if !n.is_empty() {
                odd += 1;
            }
        };
        for i in 0..ll {
            for c in 0..=255u8 {
                let mut s = l.clone();
                s[i] = c;
                visit(&s, &mut cases);
            }
        }
        for i in 0..=ll {
            for c in 0..=255u8 {
                let mut s = l.clone();
                s.insert(i, c);
                visit(&s, &mut cases);
            }
        }
        for i in 0..ll {
            let mut s = l.clone();
            s.remove(i);
            visit(&s, &mut cases);
        }
        let h = cx.sh.begin();
        let mut s = String::new();
        let _ = write!(s, "{{\"ev\":\"LS\",\"h\":{},\"base\":", h);
        js_u8(&mut s, l);
        let _ = write!(s, ",\"cases\":{},\"odd\":{},\"hits\":[", cases, odd);
        for (i, (b, r, n)) in hits.iter().enumerate() {
            if i > 0 {
                s.push(',');
            }
            s.push_str("{\"b\":");
            js_u8(&mut s, b);
            let _ = write!(s, ",\"r\":\"{}\",\"n\":\"{}\"}}", r, n);
        }
        s.push_str("]}");
        cx.sh.line(&s);
    }
}

// ------------------------------------------------------------------------------------------------

fn streaming_decode(e: &'static Encoding, api: &str, input: &[u8]) -> (String, &'static str, bool, bool) {
    let mut d = match api {
        "decode" => e.new_decoder(),
        "decode_with_bom_removal" => e.new_decoder_with_bom_removal(),
        _ => e.new_decoder_without_bom_handling(),
    };
    let mut s = String::with_capacity(d.max_utf8_buffer_length(input.len()).unwrap_or(input.len() * 3 + 16));
    if api == "decode_without_bom_handling_and_without_replacement" {
        let (r, _rd) = d.decode_to_string_without_replacement(input, &mut s, true);
        let mal = matches!(r, DecoderResult::Malformed(_, _));
        (s, d.encoding().name(), mal, mal)
    } else {
        let (_r, _rd, had) = d.decode_to_string(input, &mut s, true);
        (s, d.encoding().name(), had, false)
    }
}

fn one_decode(cx: &mut Ctx, e: &'static Encoding, api: &str, run: usize, tail: &[u8]) {
    if thinned() {
        return;
    }
    let mut input: Vec<u8> = std::iter::repeat(b'a').take(run).collect();
    input.extend_from_slice(tail);
    let lo = input.as_ptr() as usize;
    let hi = lo + input.len();
    let r = catch_unwind(AssertUnwindSafe(|| {
        let (cow, used, had, none): (Cow<str>, &'static Encoding, bool, bool) = match api {
            "decode" => {
                let (c, u, h) = e.decode(&input);
                (c, u, h, false)
            }
            "decode_with_bom_removal" => {
                let (c, h) = e.decode_with_bom_removal(&input);
                (c, e, h, false)
            }
            "decode_without_bom_handling" => {
                let (c, h) = e.decode_without_bom_handling(&input);
                (c, e, h, false)
            }
            _ => match e.decode_without_bom_handling_and_without_replacement(&input) {
                Some(c) => (c, e, false, false),
                None => (Cow::Borrowed(""), e, false, true),
            },
        };
        let borrowed = matches!(cow, Cow::Borrowed(_)) && !none;
        let p = cow.as_ptr() as usize;
        let aliases = borrowed && (cow.is_empty() || (p >= lo && p + cow.len() <= hi));
        let valid = std::str::from_utf8(cow.as_bytes()).is_ok();
        (cow.as_bytes().to_vec(), used.name(), had, none, borrowed, aliases, valid)
    }));
    let h = cx.sh.begin();
    let mut s = String::new();
    let _ = write!(s, "{{\"ev\":\"OD\",\"h\":{},\"api\":\"{}\",\"enc\":\"{}\",\"run\":{},\"tail\":", h, api, e.name(), run);
    js_u8(&mut s, tail);
    match r {
        Ok((out, used, had, none, borrowed, aliases, _valid)) => {
            let echo = out.len() >= run && out[..run].iter().all(|b| *b == b'a') || none;
            let tail_out: &[u8] = if out.len() >= run { &out[run..] } else { &[] };
            // streaming twin on the same input
            let stream = catch_unwind(AssertUnwindSafe(|| streaming_decode(e, api, &input)));
            let st = match stream {
                Ok((text, sused, shad, smal)) => {
                    if api == "decode_without_bom_handling_and_without_replacement" {
                        if smal == none && (none || text.as_bytes() == &out[..]) {
                            "same"
                        } else {
                            "differs"
                        }
                    } else if text.as_bytes() == &out[..] && shad == had && (api != "decode" || sused == used) {
                        "same"
                    } else {
                        "differs"
                    }
                }
                Err(_) => "panic",
            };
            let _ = write!(s, ",\"echo\":{},\"out\":", echo);
            js_u8(&mut s, tail_out);
            let _ = write!(
                s,
                ",\"used\":\"{}\",\"had\":{},\"none\":{},\"borrowed\":{},\"aliases\":{},\"panic\":false,\"stream\":\"{}\"}}",
                used, had, none, borrowed, aliases, st
            );
        }
        Err(_) => {
            s.push_str(",\"echo\":false,\"out\":[],\"used\":\"\",\"had\":false,\"none\":false,\"borrowed\":false,\"aliases\":false,\"panic\":true,\"stream\":\"\"}");
        }
    }
    cx.sh.line(&s);
}

fn one_encode(cx: &mut Ctx, e: &'static Encoding, run: usize, tail: &[u32]) {
    if thinned() {
        return;
    }
    let mut text: String = std::iter::repeat('a').take(run).collect();
    for &c in tail {
        text.push(char::from_u32(c).unwrap_or('\u{FFFD}'));
    }
    let lo = text.as_ptr() as usize;
    let hi = lo + text.len();
    let r = catch_unwind(AssertUnwindSafe(|| {
        let (cow, used, had) = e.encode(&text);
        let borrowed = matches!(cow, Cow::Borrowed(_));
        let p = cow.as_ptr() as usize;
        let aliases = borrowed && (cow.is_empty() || (p >= lo && p + cow.len() <= hi));
        (cow.to_vec(), used.name(), had, borrowed, aliases)
    }));
    let h = cx.sh.begin();
    let mut s = String::new();
    let _ = write!(s, "{{\"ev\":\"OE\",\"h\":{},\"enc\":\"{}\",\"run\":{},\"tail\":", h, e.name(), run);
    js_u32(&mut s, tail);
    match r {
        Ok((out, used, had, borrowed, aliases)) => {
            let echo = out.len() >= run && out[..run].iter().all(|b| *b == b'a');
            let tail_out: &[u8] = if out.len() >= run { &out[run..] } else { &[] };
            // streaming twin
            let st = catch_unwind(AssertUnwindSafe(|| {
                let mut enc = e.new_encoder();
                let mut v: Vec<u8> = Vec::with_capacity(text.len() * 12 + 32);
                let (_r, _rd, shad) = enc.encode_from_utf8_to_vec(&text, &mut v, true);
                (v, shad, enc.encoding().name())
            }));
            let stream = match st {
                Ok((v, shad, sused)) => {
                    if v == out && shad == had && sused == used {
                        "same"
                    } else {
                        "differs"
                    }
                }
                Err(_) => "panic",
            };
            let _ = write!(s, ",\"echo\":{},\"out\":", echo);
            js_u8(&mut s, tail_out);
            let _ = write!(s, ",\"used\":\"{}\",\"had\":{},\"borrowed\":{},\"aliases\":{},\"panic\":false,\"stream\":\"{}\"}}", used, had, borrowed, aliases, stream);
        }
        Err(_) => {
            s.push_str(",\"echo\":false,\"out\":[],\"used\":\"\",\"had\":false,\"borrowed\":false,\"aliases\":false,\"panic\":true,\"stream\":\"\"}");
        }
    }
    cx.sh.line(&s);
}

pub const APIS: [&str; 4] = ["decode", "decode_with_bom_removal", "decode_without_bom_handling", "decode_without_bom_handling_and_without_replacement"];

pub fn oneshot(cx: &mut Ctx) {
    let names: Vec<&str> = ENC_NAMES.iter().cloned().filter(|n| cx.wants(n)).collect();
    let mut runs: Vec<usize> = (0..=130).collect();
    runs.extend_from_slice(&[191, 192, 193, 255, 256, 257, 1000, 4095, 4096, 4097]);
    for (ei, name) in names.iter().enumerate() {
        let e = enc(name);
        let ascii_like = !matches!(*name, "UTF-16BE" | "UTF-16LE" | "replacement");
        let alpha = alphabet(name);
        // tails: empty, each alphabet byte, a few pairs / triples, BOMs and look-alikes
        let mut tails: Vec<Vec<u8>> = vec![vec![]];
        for &b in alpha.iter() {
            tails.push(vec![b]);
        }
        for i in 0..alpha.len() {
            tails.push(vec![alpha[i], alpha[(i * 7 + 3) % alpha.len()]]);
            tails.push(vec![alpha[(i * 5 + 1) % alpha.len()], alpha[i], 0x41]);
        }
        for b in [&[0xEFu8, 0xBB, 0xBF][..], &[0xFE, 0xFF], &[0xFF, 0xFE], &[0xEF, 0xBB], &[0xEF], &[0xFE], &[0xFF, 0xFE, 0x41, 0x00], &[0xEF, 0xBB, 0xBF, 0x41], &[0xEF, 0xBB, 0xBF, 0x80], &[0xFE, 0xFF, 0xD8, 0x00]] {
            tails.push(b.to_vec());
        }
        let mut k = 0usize;
        for &run in runs.iter() {
            if run > 0 && !ascii_like {
                continue;
            }
            for t in tails.iter() {
                k += 1;
                // quick: every run length meets a rotating third of the tails
                if !cx.thorough && (k + ei + cx.seed as usize) % 3 != 0 && run > 2 {
                    continue;
                }
                if run >= 1000 && k % 5 != 0 {
                    continue;
                }
                for api in APIS.iter() {
                    one_decode(cx, e, api, run, t);
                }
            }
        }
        // error-dense head followed by a clean ASCII tail: the first output allocation of the one-shot API is outgrown by the
        // replacement characters, the rest is decoded after the reallocation
        if ascii_like {
            let mut kk = 0usize;
            for nerr in 1..=6usize {
                for ntail in 0..=40usize {
                    kk += 1;
                    if !cx.thorough && (kk + ei + cx.seed as usize) % 2 != 0 && ntail > 12 {
                        continue;
                    }
                    let mut t: Vec<u8> = (0..nerr).map(|i| if i % 2 == 0 { 0xFFu8 } else { 0x80 }).collect();
                    t.extend(std::iter::repeat(b'b').take(ntail));
                    for api in APIS.iter() {
                        one_decode(cx, e, api, 0, &t);
                    }
                }
            }
        }
        // UTF-16 and replacement: longer direct inputs
        if !ascii_like {
            for _ in 0..if cx.thorough { 2000 } else { 300 } {
                let s = grammar_string(name, &mut cx.rng, 40);
                for api in APIS.iter() {
                    one_decode(cx, e, api, 0, &s);
                }
            }
        } else {
            for _ in 0..if cx.thorough { 1000 } else { 150 } {
                let s = grammar_string(name, &mut cx.rng, 40);
                let run = if cx.rng.chance(1, 2) { 0 } else { cx.rng.below(70) };
                for api in APIS.iter() {
                    one_decode(cx, e, api, run, &s);
                }
            }
        }
        // encode
        let scal = crate::ENC_SCALARS;
        let mut etails: Vec<Vec<u32>> = vec![vec![]];
        for &c in scal.iter() {
            etails.push(vec![c]);
            etails.push(vec![c, 0x41]);
            etails.push(vec![0x3042, c]);
        }
        let mut k = 0usize;
        for &run in runs.iter() {
            for t in etails.iter() {
                k += 1;
                if !cx.thorough && (k + ei + cx.seed as usize) % 4 != 0 && run > 2 {
                    continue;
                }
                if run >= 1000 && k % 7 != 0 {
                    continue;
                }
                one_encode(cx, e, run, t);
            }
        }
    }
}

// ------------------------------------------------------------------------------------------------

/// spec -> impl for the one-shot API: every input exported by MC_OneShot through the four entry points
/// (lines {"enc": name, "input": [bytes]}); the events are ordinary OD events (run = 0, tail = input)
pub fn oneshot_replay(cx: &mut Ctx, path: &str) {
    use serde_json::Value;
    let text = std::fs::read_to_string(path).expect("input file");
    for l in text.lines() {
        let v: Value = match serde_json::from_str(l) {
            Ok(v) => v,
            Err(_) => continue,
        };
        let e = enc(v["enc"].as_str().unwrap());
        let input: Vec<u8> = v["input"].as_array().unwrap().iter().map(|x| x.as_u64().unwrap() as u8).collect();
        for api in APIS.iter() {
            one_decode(cx, e, api, 0, &input);
        }
    }
}

/// spec -> impl for Encoding::encode: every text exported by MC_OneShotEnc (lines {"enc": name, "text": [scalars]})
pub fn oneshot_enc_replay(cx: &mut Ctx, path: &str) {
    use serde_json::Value;
    let text = std::fs::read_to_string(path).expect("input file");
    for l in text.lines() {
        let v: Value = match serde_json::from_str(l) {
            Ok(v) => v,
            Err(_) => continue,
        };
        let e = enc(v["enc"].as_str().unwrap());
        let t: Vec<u32> = v["text"].as_array().unwrap().iter().map(|x| x.as_u64().unwrap() as u32).collect();
        one_encode(cx, e, 0, &t);
    }
}

fn hash_of(e: &'static Encoding) -> u64 {
    use std::hash::{Hash, Hasher};
    let mut h = std::collections::hash_map::DefaultHasher::new();
    e.hash(&mut h);
    h.finish()
}

pub fn meta(cx: &mut Ctx) {
    for (i, e) in ALL.iter().enumerate() {
        let name = e.name();
        // facts measured on this build over the exhaustive separating space
        let mut fact_single = true;
        let mut fact_ascii = true;
        {
            let mut check = |s: &[u8]| {
                let mut d = e.new_decoder_without_bom_handling();
                let mut dst = [0u16; 16];
                let (_r, _rd, wr, _h) = d.decode_to_utf16(s, &mut dst, true);
                if wr != s.len() {
                    fact_single = false;
                }
                if s.len() == 1 && s[0] < 0x80 && !(wr == 1 && dst[0] == s[0] as u16) {
                    fact_ascii = false;
                }
            };
            for a in 0..=255u8 {
                check(&[a]);
                for b in 0..=255u8 {
                    check(&[a, b]);
                }
            }
            for esc in [&[0x1Bu8, 0x24, 0x42][..], &[0x1B, 0x28, 0x4A], &[0x1B, 0x28, 0x49], &[0x1B, 0x24, 0x40], &[0x1B, 0x28, 0x42]] {
                check(esc);
            }
        }
        let mut fact_everything = true;
        let oe = e.output_encoding();
        for cp in 0..0x110000u32 {
            if (0xD800..0xE000).contains(&cp) {
                continue;
            }
            let c = char::from_u32(cp).unwrap();
            let mut b = [0u8; 4];
            let s: &str = c.encode_utf8(&mut b);
            let mut encoder = e.new_encoder();
            let mut dst = [0u8; 16];
            let (r, _rd, wr) = encoder.encode_from_utf8_without_replacement(s, &mut dst, true);
            match r {
                EncoderResult::Unmappable(_) => {
                    fact_everything = false;
                    if cp < 0x80 {
                        fact_ascii = false;
                    }
                }
                _ => {
                    if wr != 1 && oe == *e {
                        fact_single = false;
                    }
                    if cp < 0x80 && !(wr == 1 && dst[0] == cp as u8 && oe == *e) {
                        fact_ascii = false;
                    }
                }
            }
        }
        if oe != *e {
            // encoders of UTF-16 / replacement produce UTF-8: "every mappable character encodes to one byte" is about this encoding
            fact_single = false;
            fact_ascii = false;
        }
        let h = cx.sh.begin();
        let mut s = String::new();
        let label = Encoding::for_label(name.as_bytes()).map(|x| x.name()).unwrap_or("");
        // which encoding encode() reports: non-ASCII text, ASCII-only text (borrow path), empty text
        let enc_used: Vec<&str> = ["a\u{e9}\u{3042}", "abc", ""].iter().map(|t| e.encode(t).1.name()).collect();
        let _ = write!(
            s,
            "{{\"ev\":\"MD\",\"h\":{},\"name\":\"{}\",\"index\":{},\"ascii\":{},\"single\":{},\"everything\":{},\"output\":\"{}\",\"outout\":\"{}\",\"encoder\":\"{}\",\"label\":\"{}\",\"encodeUsed\":[\"{}\",\"{}\",\"{}\"],\"factSingle\":{},\"factAscii\":{},\"factEverything\":{},\"eq\":[",
            h,
            name,
            i + 1,
            e.is_ascii_compatible(),
            e.is_single_byte(),
            e.can_encode_everything(),
            oe.name(),
            oe.output_encoding().name(),
            e.new_encoder().encoding().name(),
            label,
            enc_used[0],
            enc_used[1],
            enc_used[2],
            fact_single,
            fact_ascii,
            fact_everything
        );
        for (j, f) in ALL.iter().enumerate() {
            if j > 0 {
                s.push(',');
            }
            let _ = write!(s, "{}", e == f);
        }
        s.push_str("],\"hasheq\":[");
        for (j, f) in ALL.iter().enumerate() {
            if j > 0 {
                s.push(',');
            }
            let _ = write!(s, "{}", hash_of(e) == hash_of(f));
        }
        s.push_str("]}");
        cx.sh.line(&s);
    }
}

pub fn forbom(cx: &mut Ctx) {
    let mut alpha = BOM_ALPHABET.to_vec();
    alpha.push(0x00);
    let mut strings: Vec<Vec<u8>> = vec![vec![]];
    for len in 1..=4 {
        for_all_strings(&alpha, len, &mut |s| strings.push(s.to_vec()));
    }
    for _ in 0..2000 {
        let len = cx.rng.below(8);
        strings.push((0..len).map(|_| cx.rng.below(256) as u8).collect());
    }
    for s in strings.iter() {
        let r = catch_unwind(AssertUnwindSafe(|| Encoding::for_bom(s)));
        let (name, len) = match r {
            Ok(Some((e, l))) => (e.name(), l as i64),
            Ok(None) => ("", 0),
            Err(_) => ("!", -1),
        };
        let h = cx.sh.begin();
        let mut l = String::new();
        let _ = write!(l, "{{\"ev\":\"BM\",\"h\":{},\"bytes\":", h);
        js_u8(&mut l, s);
        let _ = write!(l, ",\"name\":\"{}\",\"len\":{}}}", name, len);
        cx.sh.line(&l);
    }
}

// ------------------------------------------------------------------------------------------------
// C07 overflow clause: max_*_buffer_length* with byte_length near usize::MAX in reachable short states.
fn limbs(v: u64) -> [u64; 4] {
    [v & 0xFFFF, (v >> 16) & 0xFFFF, (v >> 32) & 0xFFFF, (v >> 48) & 0xFFFF]
}
fn js_limbs(s: &mut String, v: Option<usize>) {
    match v {
        Some(x) => {
            let l = limbs(x as u64);
            let _ = write!(s, "[{},{},{},{}]", l[0], l[1], l[2], l[3]);
        }
        None => s.push_str("[]"),
    }
}

pub fn query_overflow(cx: &mut Ctx) {
    let max = usize::MAX;
    let mut ns: Vec<usize> = vec![0, 1, 2, 3, 1 << 32, (1 << 32) - 1, (1 << 32) + 1, 1 << 61, 1 << 62, (1 << 62) - 1, (1 << 63) - 1, 1 << 63, (1 << 63) + 1, max, max - 1, max - 2];
    for d in [2usize, 3, 4, 5, 6] {
        for k in 0..=4usize {
            ns.push(max / d - 2 + k);
        }
    }
    for _ in 0..40 {
        ns.push(cx.rng.next() as usize);
        ns.push((cx.rng.next() >> cx.rng.below(40)) as usize);
    }
    for e in ALL.iter() {
        let alpha = alphabet(e.name());
        let mut prefixes: Vec<(Vec<u8>, &str)> = vec![(vec![], "off"), (vec![], "sniff"), (vec![0xEF], "sniff"), (vec![0xEF, 0xBB], "sniff"), (vec![0xFE], "sniff"), (vec![0x1B], "off"), (vec![0x1B, 0x24], "off")];
        for &b in alpha.iter() {
            prefixes.push((vec![b], "off"));
            prefixes.push((vec![b, alpha[alpha.len() / 2]], "off"));
        }
        for (p, mode) in prefixes.iter() {
            for q in ["utf16", "utf8", "utf8wr"] {
                let mut d = if *mode == "sniff" { e.new_decoder() } else { e.new_decoder_without_bom_handling() };
                let mut dst = [0u16; 64];
                let _ = catch_unwind(AssertUnwindSafe(|| {
                    let _ = d.decode_to_utf16_without_replacement(p, &mut dst, false);
                }));
                for &n in ns.iter() {
                    let r = catch_unwind(AssertUnwindSafe(|| match q {
                        "utf16" => d.max_utf16_buffer_length(n),
                        "utf8" => d.max_utf8_buffer_length_without_replacement(n),
                        _ => d.max_utf8_buffer_length(n),
                    }));
                    let h = cx.sh.begin();
                    let mut s = String::new();
                    let _ = write!(s, "{{\"ev\":\"QO\",\"h\":{},\"side\":\"dec\",\"enc\":\"{}\",\"used\":\"{}\",\"q\":\"{}\",\"prefix\":", h, e.name(), d.encoding().name(), q);
                    js_u8(&mut s, p);
                    let _ = write!(s, ",\"mode\":\"{}\",\"n\":", mode);
                    js_limbs(&mut s, Some(n));
                    s.push_str(",\"ret\":");
                    match r {
                        Ok(v) => {
                            js_limbs(&mut s, v);
                            s.push_str(",\"panic\":false}");
                        }
                        Err(_) => s.push_str("[],\"panic\":true}"),
                    }
                    cx.sh.line(&s);
                }
            }
        }
        for q in ["u8", "u8if", "u16", "u16if"] {
            let enc = e.new_encoder();
            for &n in ns.iter() {
                let r = catch_unwind(AssertUnwindSafe(|| match q {
                    "u8" => enc.max_buffer_length_from_utf8_without_replacement(n),
                    "u8if" => enc.max_buffer_length_from_utf8_if_no_unmappables(n),
                    "u16" => enc.max_buffer_length_from_utf16_without_replacement(n),
                    _ => enc.max_buffer_length_from_utf16_if_no_unmappables(n),
                }));
                let h = cx.sh.begin();
                let mut s = String::new();
                let _ = write!(s, "{{\"ev\":\"QO\",\"h\":{},\"side\":\"enc\",\"enc\":\"{}\",\"used\":\"{}\",\"q\":\"{}\",\"prefix\":[],\"mode\":\"off\",\"n\":", h, e.name(), enc.encoding().name(), q);
                js_limbs(&mut s, Some(n));
                s.push_str(",\"ret\":");
                match r {
                    Ok(v) => {
                        js_limbs(&mut s, v);
                        s.push_str(",\"panic\":false}");
                    }
                    Err(_) => s.push_str("[],\"panic\":true}"),
                }
                cx.sh.line(&s);
            }
        }
    }
}
