// Input corpora: the 40 encodings, per-family class-representative byte alphabets (DESIGN.md
// Appendix C) and stream generators.  The enumeration rules are stated here and in the evidence.
use crate::util::Rng;
use encoding_rs::*;

pub const ENC_NAMES: [&str; 40] = [
    "UTF-8", "IBM866", "ISO-8859-2", "ISO-8859-3", "ISO-8859-4", "ISO-8859-5", "ISO-8859-6", "ISO-8859-7", "ISO-8859-8", "ISO-8859-8-I",
    "ISO-8859-10", "ISO-8859-13", "ISO-8859-14", "ISO-8859-15", "ISO-8859-16", "KOI8-R", "KOI8-U", "macintosh", "windows-874", "windows-1250",
    "windows-1251", "windows-1252", "windows-1253", "windows-1254", "windows-1255", "windows-1256", "windows-1257", "windows-1258",
    "x-mac-cyrillic", "GBK", "gb18030", "Big5", "EUC-JP", "ISO-2022-JP", "Shift_JIS", "EUC-KR", "UTF-16BE", "UTF-16LE", "replacement",
    "x-user-defined",
];

pub fn enc(name: &str) -> &'static Encoding {
    // for_label is itself under test (C13); resolve by comparing names of the exported statics instead
    for e in ALL.iter() {
        if e.name() == name {
            return e;
        }
    }
    panic!("unknown encoding {}", name);
}

pub static ALL: [&'static Encoding; 40] = [
    UTF_8, IBM866, ISO_8859_2, ISO_8859_3, ISO_8859_4, ISO_8859_5, ISO_8859_6, ISO_8859_7, ISO_8859_8, ISO_8859_8_I, ISO_8859_10, ISO_8859_13,
    ISO_8859_14, ISO_8859_15, ISO_8859_16, KOI8_R, KOI8_U, MACINTOSH, WINDOWS_874, WINDOWS_1250, WINDOWS_1251, WINDOWS_1252, WINDOWS_1253,
    WINDOWS_1254, WINDOWS_1255, WINDOWS_1256, WINDOWS_1257, WINDOWS_1258, X_MAC_CYRILLIC, GBK, GB18030, BIG5, EUC_JP, ISO_2022_JP, SHIFT_JIS,
    EUC_KR, UTF_16BE, UTF_16LE, REPLACEMENT, X_USER_DEFINED,
];

pub fn is_single_byte_name(n: &str) -> bool {
    !matches!(
        n,
        "UTF-8" | "GBK" | "gb18030" | "Big5" | "EUC-JP" | "ISO-2022-JP" | "Shift_JIS" | "EUC-KR" | "UTF-16BE" | "UTF-16LE" | "replacement" | "x-user-defined"
    )
}

/// the always-on core of multi-byte / stateful encodings
pub const CORE: [&str; 12] = [
    "UTF-8", "GBK", "gb18030", "Big5", "EUC-JP", "ISO-2022-JP", "Shift_JIS", "EUC-KR", "UTF-16BE", "UTF-16LE", "replacement", "x-user-defined",
];

/// class-representative byte alphabet (real bytes) of an encoding's decoder
pub fn alphabet(name: &str) -> Vec<u8> {
    match name {
        "Big5" => vec![0x20, 0x40, 0x7E, 0x7F, 0x80, 0x81, 0x87, 0x88, 0x62, 0x64, 0xA3, 0xA5, 0xA1, 0xA4, 0xC8, 0xFE, 0xFF],
        "gb18030" | "GBK" => vec![0x2F, 0x30, 0x39, 0x3A, 0x40, 0x7E, 0x7F, 0x80, 0x81, 0x84, 0x90, 0xA1, 0xA8, 0xE3, 0xFE, 0xFF, 0x31, 0xA4, 0x32, 0x9A, 0x35, 0x36],
        "EUC-JP" => vec![0x20, 0x41, 0x80, 0x8E, 0x8F, 0xA1, 0xA4, 0xDF, 0xE0, 0xFE, 0xFF, 0xB0],
        "Shift_JIS" => vec![0x20, 0x3F, 0x40, 0x7E, 0x7F, 0x80, 0x81, 0x82, 0x9F, 0xA0, 0xA1, 0xDF, 0xE0, 0xF0, 0xFC, 0xFD, 0xFF],
        "EUC-KR" => vec![0x20, 0x2C, 0x41, 0x5A, 0x5B, 0x61, 0x7A, 0x7B, 0x80, 0x81, 0xA1, 0xB0, 0xC6, 0xC7, 0xFE, 0xFF],
        "UTF-8" => vec![0x41, 0x80, 0x8F, 0x90, 0x9F, 0xA0, 0xBF, 0xC0, 0xC2, 0xDF, 0xE0, 0xED, 0xEF, 0xF0, 0xF4, 0xF5, 0xFF, 0xBB],
        "UTF-16BE" | "UTF-16LE" => vec![0x00, 0x20, 0x41, 0xD8, 0xDB, 0xDC, 0xDF, 0xFE, 0xFF],
        "ISO-2022-JP" => vec![0x0E, 0x1B, 0x21, 0x24, 0x28, 0x40, 0x41, 0x42, 0x49, 0x4A, 0x5C, 0x5F, 0x60, 0x7E, 0x80],
        "replacement" => vec![0x20, 0x41, 0x80, 0xFF],
        "x-user-defined" => vec![0x20, 0x41, 0x7F, 0x80, 0xFF],
        _ => {
            // single-byte: ASCII, and bytes decoding below / at or above U+0800, unmapped bytes, edges
            vec![0x20, 0x41, 0x7F, 0x80, 0x81, 0x8D, 0x90, 0x98, 0xA0, 0xA1, 0xAE, 0xCA, 0xD2, 0xDB, 0xF0, 0xFF]
        }
    }
}

pub const BOM_ALPHABET: [u8; 7] = [0xEF, 0xBB, 0xBF, 0xFE, 0xFF, 0x41, 0x80];

/// all strings of length `len` over `alpha`, visited in lexicographic order
pub fn for_all_strings(alpha: &[u8], len: usize, f: &mut dyn FnMut(&[u8])) {
    let mut idx = vec![0usize; len];
    let mut buf = vec![0u8; len];
    loop {
        for i in 0..len {
            buf[i] = alpha[idx[i]];
        }
        f(&buf);
        let mut i = len;
        loop {
            if i == 0 {
                return;
            }
            i -= 1;
            idx[i] += 1;
            if idx[i] < alpha.len() {
                break;
            }
            idx[i] = 0;
        }
    }
}

/// well-formed / near-well-formed sequences of an encoding, used as tokens of the stream grammar
pub fn tokens(name: &str, rng: &mut Rng) -> Vec<u8> {
    let a = alphabet(name);
    let r = rng.below(100);
    match name {
        "UTF-8" => match r {
            0..=29 => vec![0x20 + rng.below(0x5F) as u8],
            30..=44 => char::from_u32(0x80 + rng.below(0x780) as u32).unwrap().to_string().into_bytes(),
            45..=59 => {
                let mut c = 0x800 + rng.below(0xF800) as u32;
                if (0xD800..0xE000).contains(&c) {
                    c = 0xFFFD;
                }
                char::from_u32(c).unwrap().to_string().into_bytes()
            }
            60..=69 => char::from_u32(0x10000 + rng.below(0x100000) as u32).unwrap().to_string().into_bytes(),
            70..=79 => {
                // truncated sequence
                let mut v = char::from_u32(0x10000 + rng.below(0x100000) as u32).unwrap().to_string().into_bytes();
                v.truncate(1 + rng.below(3));
                v
            }
            _ => (0..1 + rng.below(3)).map(|_| *rng.pick(&a)).collect(),
        },
        "UTF-16BE" | "UTF-16LE" => {
            let be = name == "UTF-16BE";
            let unit = |u: u16| if be { vec![(u >> 8) as u8, u as u8] } else { vec![u as u8, (u >> 8) as u8] };
            match r {
                0..=39 => unit(0x20 + rng.below(0x5F) as u16),
                40..=59 => unit(0x3000 + rng.below(0x6000) as u16),
                60..=74 => {
                    let mut v = unit(0xD800 + rng.below(0x400) as u16);
                    v.extend(unit(0xDC00 + rng.below(0x400) as u16));
                    v
                }
                75..=79 => unit(0xD800 + rng.below(0x800) as u16),
                80..=84 => unit(*rng.pick(&[0xD800u16, 0xDBFF, 0xDC00, 0xDFFF, 0xDC00, 0xDFFF])),
                85..=92 => vec![*rng.pick(&a)],
                _ => (0..1 + rng.below(3)).map(|_| rng.below(256) as u8).collect(),
            }
        }
        "ISO-2022-JP" => match r {
            0..=24 => vec![0x21 + rng.below(0x5E) as u8],
            25..=34 => vec![0x1B, 0x24, 0x42],
            35..=39 => vec![0x1B, 0x24, 0x40],
            40..=49 => vec![0x1B, 0x28, 0x42],
            50..=57 => vec![0x1B, 0x28, 0x4A],
            58..=64 => vec![0x1B, 0x28, 0x49],
            65..=79 => vec![0x21 + rng.below(0x5E) as u8, 0x21 + rng.below(0x5E) as u8],
            80..=84 => vec![0x1B],
            85..=89 => vec![0x1B, *rng.pick(&[0x24u8, 0x28])],
            _ => (0..1 + rng.below(3)).map(|_| *rng.pick(&a)).collect(),
        },
        "gb18030" | "GBK" => match r {
            0..=24 => vec![0x20 + rng.below(0x5F) as u8],
            25..=49 => vec![0x81 + rng.below(0x7E) as u8, {
                let t = 0x40 + rng.below(0xBF) as u8;
                if t == 0x7F {
                    0x80
                } else {
                    t
                }
            }],
            50..=69 => vec![0x81 + rng.below(0x7E) as u8, 0x30 + rng.below(10) as u8, 0x81 + rng.below(0x7E) as u8, 0x30 + rng.below(10) as u8],
            70..=74 => vec![0x81 + rng.below(4) as u8, 0x30 + rng.below(10) as u8, 0x81 + rng.below(0x7E) as u8, 0x30 + rng.below(10) as u8],
            75..=79 => vec![0x90 + rng.below(0x54) as u8, 0x30 + rng.below(10) as u8, 0x81 + rng.below(0x7E) as u8, 0x30 + rng.below(10) as u8],
            80..=89 => {
                let mut v = vec![0x81 + rng.below(0x7E) as u8, 0x30 + rng.below(10) as u8, 0x81 + rng.below(0x7E) as u8, 0x30 + rng.below(10) as u8];
                v.truncate(1 + rng.below(3));
                v
            }
            _ => (0..1 + rng.below(4)).map(|_| *rng.pick(&a)).collect(),
        },
        "EUC-JP" => match r {
            0..=24 => vec![0x20 + rng.below(0x5F) as u8],
            25..=49 => vec![0xA1 + rng.below(0x5E) as u8, 0xA1 + rng.below(0x5E) as u8],
            50..=59 => vec![0x8E, 0xA1 + rng.below(0x3F) as u8],
            60..=74 => vec![0x8F, 0xA1 + rng.below(0x5E) as u8, 0xA1 + rng.below(0x5E) as u8],
            75..=79 => vec![0x8F, 0xA1 + rng.below(0x5E) as u8],
            80..=84 => vec![0x8F],
            85..=89 => vec![0x8E],
            _ => (0..1 + rng.below(3)).map(|_| *rng.pick(&a)).collect(),
        },
        "Big5" | "EUC-KR" | "Shift_JIS" => match r {
            0..=24 => vec![0x20 + rng.below(0x5F) as u8],
            25..=64 => vec![0x81 + rng.below(0x7E) as u8, 0x40 + rng.below(0xBF) as u8],
            65..=74 => vec![0x81 + rng.below(0x7E) as u8],
            75..=84 => vec![0xA1 + rng.below(0x3F) as u8],
            _ => (0..1 + rng.below(3)).map(|_| *rng.pick(&a)).collect(),
        },
        _ => match r {
            0..=39 => vec![0x20 + rng.below(0x5F) as u8],
            40..=79 => vec![0x80 + rng.below(0x80) as u8],
            _ => vec![*rng.pick(&a)],
        },
    }
}

pub fn grammar_string(name: &str, rng: &mut Rng, maxlen: usize) -> Vec<u8> {
    let target = rng.below(maxlen + 1);
    let mut v = Vec::new();
    while v.len() < target {
        v.extend(tokens(name, rng));
    }
    v
}
