// verif_harness: drives the real encoding_rs API and records ndjson traces for TLC trace validation.
mod dec;
mod enc;
mod guard;
mod inputs;
mod mem;
mod misc;
mod util;

use dec::*;
use enc::{EHistCfg, ESink, Source};
use inputs::*;
use util::*;

pub struct Ctx {
    pub sh: Shards,
    pub rng: Rng,
    pub thorough: bool,
    pub seed: u64,
    pub only: Option<String>,
}

impl Ctx {
    fn wants(&self, name: &str) -> bool {
        match &self.only {
            Some(o) => o.split(',').any(|x| x == name),
            None => true,
        }
    }
}

fn hc(enc: &'static encoding_rs::Encoding, mode: Mode, sink: Sink, repl: bool) -> HistCfg {
    HistCfg { enc, mode, sink, repl, twins: false, latin1: 0, lat_src: false, unit: 3, prelen: 0 }
}

fn whole(cx: &mut Ctx, cfg: &HistCfg, stream: &[u8], q: bool) {
    let big = stream.len() * 3 + 16;
    let mut caps = |_i: usize| if q { CapSpec::Query(0) } else { CapSpec::Fixed(big) };
    run_chunked(&mut cx.sh, cfg, stream, &[], &mut caps, false, false);
}

/// C01: complete streams through the four whole-stream forms.
fn dec_whole(cx: &mut Ctx) {
    let names: Vec<&str> = ENC_NAMES.iter().cloned().filter(|n| cx.wants(n)).collect();
    for name in names.iter() {
        let e = enc(name);
        let combos = [(Sink::Utf8, false), (Sink::Utf16, false), (Sink::Utf8, true), (Sink::Utf16, true)];
        // every 1-byte string, all four forms
        for b in 0..=255u8 {
            for (s, r) in combos.iter() {
                whole(cx, &hc(e, Mode::Off, *s, *r), &[b], b % 2 == 0);
            }
        }
        // every 2-byte string
        let core = CORE.contains(name);
        let do2 = core || cx.thorough || (cx.seed as usize + ENC_NAMES.iter().position(|n| n == name).unwrap()) % 7 == 0;
        if do2 {
            for a in 0..=255u8 {
                for b in 0..=255u8 {
                    let k = (a as usize * 256 + b as usize) % 4;
                    let (s, r) = if core && a >= 0x80 || cx.thorough { combos[(k + (a as usize)) % 2] } else { combos[k] };
                    whole(cx, &hc(e, Mode::Off, s, r), &[a, b], false);
                    if cx.thorough && core && a >= 0x80 {
                        let (s, r) = combos[2 + (k % 2)];
                        whole(cx, &hc(e, Mode::Off, s, r), &[a, b], false);
                    }
                }
            }
        }
        // 3- and 4-byte strings over the class alphabet
        if core {
            let alpha = alphabet(name);
            let maxlen = match *name {
                "gb18030" | "GBK" => 4,
                "UTF-8" | "EUC-JP" | "ISO-2022-JP" | "UTF-16BE" | "UTF-16LE" => 4,
                _ => 3,
            };
            let mut n = 0usize;
            for len in 3..=maxlen {
                if len == 4 && !cx.thorough && alpha.len() > 12 {
                    // quick tier: a seeded 1/8 slice of the 4-byte space
                    let seed = cx.seed as usize;
                    let mut v: Vec<Vec<u8>> = Vec::new();
                    for_all_strings(&alpha, len, &mut |s| {
                        n += 1;
                        if (n + seed) % 8 == 0 {
                            v.push(s.to_vec());
                        }
                    });
                    for s in v {
                        let k = s.iter().map(|x| *x as usize).sum::<usize>() % 4;
                        whole(cx, &hc(e, Mode::Off, combos[k].0, combos[k].1), &s, false);
                    }
                } else {
                    let mut v: Vec<Vec<u8>> = Vec::new();
                    for_all_strings(&alpha, len, &mut |s| v.push(s.to_vec()));
                    for s in v {
                        let k = s.iter().map(|x| *x as usize).sum::<usize>() % 4;
                        whole(cx, &hc(e, Mode::Off, combos[k].0, combos[k].1), &s, false);
                    }
                }
            }
        }
        // structured sweeps: every pointer of the longer forms
        match *name {
            "ISO-2022-JP" => {
                // the escape grammar in depth: every string of length 5..7 over the escape bytes (escapes after escapes, lone ESC
                // before an escape, the output flag), and of length 5 with a letter and a two-byte-set byte added
                for len in 5..=7usize {
                    let mut v: Vec<Vec<u8>> = Vec::new();
                    for_all_strings(&[0x1B, 0x28, 0x24, 0x42, 0x4A], len, &mut |s| v.push(s.to_vec()));
                    for (i, s) in v.iter().enumerate() {
                        if len == 7 && !cx.thorough && (i + cx.seed as usize) % 2 != 0 {
                            continue;
                        }
                        whole(cx, &hc(e, Mode::Off, if i % 2 == 0 { Sink::Utf16 } else { Sink::Utf8 }, i % 5 == 0), s, false);
                    }
                }
                {
                    let mut v: Vec<Vec<u8>> = Vec::new();
                    for_all_strings(&[0x1B, 0x28, 0x24, 0x42, 0x4A, 0x41, 0x21], 5, &mut |s| v.push(s.to_vec()));
                    for (i, s) in v.iter().enumerate() {
                        whole(cx, &hc(e, Mode::Off, if i % 2 == 0 { Sink::Utf8 } else { Sink::Utf16 }, i % 3 == 0), s, false);
                    }
                }
                // every byte after each one-byte-set escape, every pair after the two-byte-set escapes
                for esc in [[0x1Bu8, 0x28, 0x42], [0x1B, 0x28, 0x4A], [0x1B, 0x28, 0x49]] {
                    for b in 0..=255u8 {
                        let s = [esc[0], esc[1], esc[2], b];
                        whole(cx, &hc(e, Mode::Off, if b % 2 == 0 { Sink::Utf16 } else { Sink::Utf8 }, b % 3 == 0), &s, false);
                    }
                }
                for (k, esc) in [[0x1Bu8, 0x24, 0x42], [0x1B, 0x24, 0x40]].iter().enumerate() {
                    for l in 0x21..=0x7Eu8 {
                        for t in 0x21..=0x7Eu8 {
                            if k == 1 && !cx.thorough && (l as usize + t as usize + cx.seed as usize) % 3 != 0 {
                                continue;
                            }
                            let s = [esc[0], esc[1], esc[2], l, t];
                            whole(cx, &hc(e, Mode::Off, if t % 2 == 0 { Sink::Utf16 } else { Sink::Utf8 }, false), &s, false);
                        }
                    }
                }
            }
            "EUC-JP" => {
                let step = 1;
                let mut i = cx.seed as usize % step;
                for l in 0xA1..=0xFEu8 {
                    for t in 0xA1..=0xFEu8 {
                        i += 1;
                        if i % step == 0 {
                            whole(cx, &hc(e, Mode::Off, Sink::Utf16, false), &[0x8F, l, t], false);
                        }
                    }
                }
            }
            "gb18030" | "GBK" => {
                // all four-byte range pointers 0..39419 (+ neighbours) and astral edges
                let step = 1;
                let mut p = cx.seed as usize % step;
                let mut ps: Vec<usize> = Vec::new();
                while p < 39500 {
                    ps.push(p);
                    p += step;
                }
                ps.extend_from_slice(&[0, 7456, 7457, 7458, 39419, 39420, 39421, 188999, 189000, 189001, 1237575, 1237576, 1237577]);
                let mut q = 189000 + (cx.seed as usize % 997);
                while q < 1237576 {
                    ps.push(q);
                    q += if cx.thorough { 997 } else { 9973 };
                }
                for p in ps {
                    let b1 = p / 12600;
                    let r = p % 12600;
                    let b2 = r / 1260;
                    let r = r % 1260;
                    let b3 = r / 10;
                    let b4 = r % 10;
                    if b1 + 0x81 > 0xFE {
                        continue;
                    }
                    let s = [(b1 + 0x81) as u8, (b2 + 0x30) as u8, (b3 + 0x81) as u8, (b4 + 0x30) as u8];
                    whole(cx, &hc(e, Mode::Off, if p % 2 == 0 { Sink::Utf16 } else { Sink::Utf8 }, false), &s, false);
                }
            }
            _ => {}
        }
        // seeded grammar-based long strings
        let n = if cx.thorough { 3000 } else { 300 } * if core { 2 } else { 1 } / 2;
        for i in 0..n {
            let s = grammar_string(name, &mut cx.rng, 48);
            let (sk, r) = combos[i % 4];
            let mode = if i % 5 == 0 { Mode::Sniff } else { Mode::Off };
            whole(cx, &hc(e, mode, sk, r), &s, i % 3 == 0);
        }
    }
}

fn caps_list(sink: Sink, thorough: bool) -> Vec<usize> {
    let m = sink.min_cap();
    if thorough {
        vec![m, m + 1, m + 2, m + 3, m + 4, m + 5, 64]
    } else {
        vec![m, m + 1, m + 2, m + 3, 64]
    }
}

/// C02: all cut sets of short streams over the class alphabets x capacities x sinks x modes.
fn dec_cutsets(cx: &mut Ctx) {
    let names: Vec<&str> = ENC_NAMES.iter().cloned().filter(|n| cx.wants(n)).collect();
    for name in names.iter() {
        let e = enc(name);
        let core = CORE.contains(name);
        if !core && !cx.thorough && (cx.seed as usize + ENC_NAMES.iter().position(|n| n == name).unwrap()) % 7 != 1 {
            continue;
        }
        let alpha = alphabet(name);
        let maxlen = if cx.thorough { 4 } else { 3 };
        let mut streams: Vec<Vec<u8>> = Vec::new();
        for len in 1..=maxlen {
            if len == 4 && alpha.len() > 12 {
                let mut n = 0usize;
                let seed = cx.seed as usize;
                for_all_strings(&alpha, len, &mut |s| {
                    n += 1;
                    if (n + seed) % 16 == 0 {
                        streams.push(s.to_vec());
                    }
                });
            } else {
                for_all_strings(&alpha, len, &mut |s| streams.push(s.to_vec()));
            }
        }
        // longer seeded streams (lengths 5..7) so that four-byte forms are cut at every place
        let extra = if cx.thorough { 400 } else { 60 };
        for _ in 0..extra {
            let mut s = grammar_string(name, &mut cx.rng, 7);
            s.truncate(7);
            if s.len() >= 4 {
                streams.push(s);
            }
        }
        // potential-BOM prefixes followed by class bytes (cut everywhere, sniffing / BOM-removal decoders)
        let nplain = streams.len();
        for pre in [&[0xEFu8, 0xBB][..], &[0xEF], &[0xFE], &[0xFF], &[0xEF, 0xBB, 0xBF], &[0xFF, 0xFE], &[0xFE, 0xFF]] {
            for &b in alpha.iter().step_by(if cx.thorough { 1 } else { 3 }) {
                let mut v = pre.to_vec();
                v.push(b);
                streams.push(v.clone());
                v.push(0x41);
                streams.push(v);
            }
        }
        let mut hcount = 0usize;
        for (si, s) in streams.iter().enumerate() {
            let n = s.len();
            let ncuts = 1usize << (n - 1);
            for mask in 0..ncuts {
                let mut ends: Vec<usize> = Vec::new();
                for i in 1..n {
                    if mask & (1 << (i - 1)) != 0 {
                        ends.push(i);
                    }
                }
                hcount += 1;
                // rotate the (sink, repl, cap, mode) combination deterministically so that every stream/cut set
                // meets every sink and a spread of capacities; thorough runs all capacities for raw sinks
                let sink = ALL_SINKS[(hcount + cx.seed as usize) % 4];
                let repl = (hcount / 4) % 2 == 0;
                let caps = caps_list(sink, cx.thorough);
                let mode = if si >= nplain {
                    if hcount % 3 == 0 { Mode::Remove } else { Mode::Sniff }
                } else if hcount % 11 == 0 {
                    Mode::Sniff
                } else {
                    Mode::Off
                };
                let capsel: Vec<usize> = if cx.thorough && mask % 2 == 0 { caps.clone() } else { vec![caps[(hcount / 8) % caps.len()]] };
                for c in capsel {
                    let mut cfg = hc(e, mode, sink, repl);
                    cfg.twins = hcount % 5 == 0;
                    cfg.unit = 1 + (hcount % 4);
                    cfg.prelen = hcount % 6;
                    let mut capf = |_i: usize| CapSpec::Fixed(c);
                    run_chunked(&mut cx.sh, &cfg, s, &ends, &mut capf, hcount % 3 == 0, hcount % 16 == 0);
                }
            }
        }
    }
}

/// seeded random histories on long grammar strings (re-cuts, empty calls, queries, all sinks and modes)
fn dec_random(cx: &mut Ctx) {
    let names: Vec<&str> = ENC_NAMES.iter().cloned().filter(|n| cx.wants(n)).collect();
    let per = if cx.thorough { 2500 } else { 250 };
    for name in names.iter() {
        let e = enc(name);
        let n = if CORE.contains(name) { per } else { per / 5 };
        for i in 0..n {
            let s = grammar_string(name, &mut cx.rng, if i % 10 == 0 { 120 } else { 24 });
            let sink = ALL_SINKS[cx.rng.below(4)];
            let mode = ALL_MODES[cx.rng.below(3)];
            let mut cfg = hc(e, mode, sink, cx.rng.chance(1, 2));
            cfg.twins = cx.rng.chance(1, 4);
            cfg.latin1 = if cx.rng.chance(1, 3) { 1 + cx.rng.below(3) } else { 0 };
            cfg.unit = 1 + cx.rng.below(4);
            cfg.prelen = cx.rng.below(8);
            let mut stream = s;
            if mode != Mode::Off && cx.rng.chance(1, 3) {
                // plant a BOM or a BOM look-alike in front
                let pre: &[u8] = *cx.rng.pick(&[&[0xEFu8, 0xBB, 0xBF][..], &[0xFE, 0xFF], &[0xFF, 0xFE], &[0xEF, 0xBB], &[0xEF], &[0xFE], &[0xFF], &[0xEF, 0xBF]]);
                let mut v = pre.to_vec();
                v.extend(stream);
                stream = v;
            }
            let mc = 1 + cx.rng.below(6);
            let capmax = cx.rng.below(6);
            let mut r2 = Rng::new(cx.rng.next());
            run_random(&mut cx.sh, &cfg, &stream, &mut r2, mc, capmax);
        }
    }
}

/// C10: BOM matrix - every prefix of length 0..3 over the BOM alphabet followed by class tails, all cut sets of the
/// first 4 bytes, three modes, with and without an empty final call, capacities around the minimum, both raw
/// sinks, with/without replacement.  Prefix x cut set x mode x empty-final is exhaustive for all 40 encodings.
fn dec_bom(cx: &mut Ctx) {
    let names: Vec<&str> = ENC_NAMES.iter().cloned().filter(|n| cx.wants(n)).collect();
    for (ei, name) in names.iter().enumerate() {
        let e = enc(name);
        let core = CORE.contains(name);
        let mut streams: Vec<Vec<u8>> = vec![vec![]];
        for len in 1..=3 {
            for_all_strings(&BOM_ALPHABET, len, &mut |s| streams.push(s.to_vec()));
        }
        // tails: bytes with meaning in the nominal encoding
        let alpha = alphabet(name);
        let mut tails: Vec<Vec<u8>> = vec![vec![], vec![alpha[alpha.len() / 2]]];
        if core || cx.thorough {
            tails.extend_from_slice(&[vec![0x41], vec![0x1B, 0x24], vec![*alpha.last().unwrap(), 0x41]]);
        }
        let mut hcount = 0usize;
        for p in streams.iter() {
            for (ti, t) in tails.iter().enumerate() {
                let mut s = p.clone();
                s.extend(t);
                let n = s.len();
                let ncuts = if n == 0 { 1 } else { 1usize << (n - 1).min(3) };
                for mask in 0..ncuts {
                    let mut ends: Vec<usize> = Vec::new();
                    for i in 1..n.min(4) {
                        if mask & (1 << (i - 1)) != 0 {
                            ends.push(i);
                        }
                    }
                    for mode in ALL_MODES.iter() {
                        for empty_last in [false, true] {
                            hcount += 1;
                            let sink = if (hcount + ti + ei) % 2 == 0 { Sink::Utf8 } else { Sink::Utf16 };
                            let repl = (hcount / 2 + mask) % 2 == 0;
                            let m = sink.min_cap();
                            let all = [m, m + 1, m + 2, 64];
                            let caps: Vec<usize> = if cx.thorough {
                                all.to_vec()
                            } else if core {
                                vec![all[(hcount / 4) % 4], all[(hcount / 4 + 1 + hcount % 3) % 4]]
                            } else {
                                vec![all[(hcount / 4 + cx.seed as usize) % 4]]
                            };
                            for c in caps {
                                let mut cfg = hc(e, *mode, sink, repl);
                                cfg.latin1 = if hcount % 3 == 0 { 1 } else { 0 };
                                let mut capf = |_i: usize| CapSpec::Fixed(c);
                                run_chunked(&mut cx.sh, &cfg, &s, &ends, &mut capf, empty_last, false);
                            }
                        }
                    }
                }
            }
        }
    }
}

// ------------------------------------------------------------------------------------------------
// encoder profiles

pub const ENC_SCALARS: [u32; 41] = [
    0x0E, 0x1B, 0x20, 0x41, 0x5C, 0x7E, 0x7F, 0x80, 0xA5, 0xE9, 0x3A9, 0x410, 0x5D0, 0x1E3F, 0xE78D, 0xE864, 0x20AC, 0x203E, 0x2212, 0x2550,
    0x3000, 0x3042, 0x30A2, 0x4E00, 0x4EDD, 0x9FA5, 0xAC00, 0xE5E5, 0xE7C7, 0xF780, 0xF7FF, 0xFF61, 0xFF9F, 0xFFE5, 0xFFFD, 0x2008A, 0x1F4A9,
    0x10FFFF, 0x7FF, 0x800, 0x4E02, // U+4E02: a unified ideograph that JIS X 0208 and KS X 1001 lack
];
pub const LONE: [u32; 2] = [0xD83D, 0xDCA9];
/// decimal length boundaries of numeric character references
pub const NCR_SCALARS: [u32; 19] = [128, 129, 255, 999, 1000, 1001, 9999, 10000, 10001, 55295, 57344, 65533, 99999, 100000, 100001, 999999, 1000000, 1000001, 1114111];

fn short_alphabet(name: &str) -> Vec<u32> {
    match name {
        "ISO-2022-JP" => vec![0x41, 0x5C, 0x1B, 0xA5, 0x203E, 0x3042, 0xFF61, 0x2212, 0x4E00, 0x4E02, 0xE9, 0x1F4A9],
        "gb18030" | "GBK" => vec![0x41, 0x80, 0x20AC, 0xE9, 0x4E00, 0xE5E5, 0xE7C7, 0xE78D, 0x1F4A9, 0x3000],
        "Big5" => vec![0x41, 0x2550, 0x4E00, 0x2008A, 0xE9, 0x1F4A9, 0x3000],
        "EUC-JP" | "Shift_JIS" => vec![0x41, 0x5C, 0xA5, 0x203E, 0x2212, 0xFF61, 0x3042, 0x4E00, 0x4E02, 0x80, 0x1F4A9, 0xE9],
        "EUC-KR" => vec![0x41, 0xAC00, 0x4E00, 0x4E02, 0x3000, 0xE9, 0x1F4A9],
        "UTF-8" | "UTF-16BE" | "UTF-16LE" | "replacement" => vec![0x41, 0x7F, 0x80, 0x7FF, 0x800, 0xFFFF, 0x10000, 0x10FFFF],
        "x-user-defined" => vec![0x41, 0xF780, 0xF7FF, 0x80, 0x1F4A9],
        _ => vec![0x41, 0x80, 0xA0, 0xE9, 0x410, 0x20AC, 0x3042, 0x1F4A9],
    }
}

fn ehc(e: &'static encoding_rs::Encoding, source: Source, sink: ESink, repl: bool) -> EHistCfg {
    EHistCfg { enc: e, source, sink, repl, twins: false, prelen: 0 }
}

fn ewhole(cx: &mut Ctx, cfg: &EHistCfg, items: &[u32], q: bool) {
    let big = items.len() * 12 + 32;
    let mut caps = |_i: usize| if q { enc::CapSpec::Query(0) } else { enc::CapSpec::Fixed(big) };
    enc::run_chunked(&mut cx.sh, cfg, items, &[], &mut caps, false);
}

/// one scalar through a fresh encoder (whole stream, last = true); returns (res, um, out)
fn encode_one(e: &'static encoding_rs::Encoding, source: Source, cp: u32) -> (char, u32, usize, Vec<u8>) {
    let mut encoder = e.new_encoder();
    let mut dst = [0u8; 32];
    let c = char::from_u32(cp).unwrap();
    match source {
        Source::Utf8 => {
            let mut b = [0u8; 4];
            let s: &str = c.encode_utf8(&mut b);
            let (r, rd, wr) = encoder.encode_from_utf8_without_replacement(s, &mut dst, true);
            let ok = rd == s.len();
            match r {
                encoding_rs::EncoderResult::InputEmpty => (if ok { 'I' } else { 'X' }, 0, rd, dst[..wr].to_vec()),
                encoding_rs::EncoderResult::OutputFull => ('O', 0, rd, dst[..wr].to_vec()),
                encoding_rs::EncoderResult::Unmappable(u) => (if ok { 'U' } else { 'X' }, u as u32, rd, dst[..wr].to_vec()),
            }
        }
        Source::Utf16 => {
            let mut b = [0u16; 2];
            let s: &[u16] = c.encode_utf16(&mut b);
            let (r, rd, wr) = encoder.encode_from_utf16_without_replacement(s, &mut dst, true);
            let ok = rd == s.len();
            match r {
                encoding_rs::EncoderResult::InputEmpty => (if ok { 'I' } else { 'X' }, 0, rd, dst[..wr].to_vec()),
                encoding_rs::EncoderResult::OutputFull => ('O', 0, rd, dst[..wr].to_vec()),
                encoding_rs::EncoderResult::Unmappable(u) => (if ok { 'U' } else { 'X' }, u as u32, rd, dst[..wr].to_vec()),
            }
        }
    }
}

/// C03 aggregate: every scalar value alone through every encoder.  One "ES" event per (encoder, source,
/// range): the complete list of scalars that were mapped, with their bytes, and the list of scalars whose
/// answer had any other shape than "mapped" or "Unmappable(that scalar)" (a fact, not a judgement).
fn enc_sweep(cx: &mut Ctx) {
    use std::fmt::Write;
    let names: Vec<&str> = ENC_NAMES.iter().cloned().filter(|n| cx.wants(n)).collect();
    for name in names.iter() {
        let e = enc(name);
        for source in [Source::Utf8, Source::Utf16] {
            // ranges: BMP in 4 parts, astral planes in parts of 0x4000
            let mut ranges: Vec<(u32, u32, u32, u32)> = Vec::new(); // lo, hi, stride, offset
            for k in 0..4u32 {
                ranges.push((k * 0x4000, (k + 1) * 0x4000, 1, 0));
            }
            let astral_stride: u32 = if cx.thorough { 1 } else { 16 };
            let off = (cx.seed as u32) % astral_stride;
            let mut lo = 0x10000u32;
            while lo < 0x110000 {
                // Big5 is the only encoder with a sparse astral repertoire (all of it in plane 2): never thinned there
                if *name == "Big5" && (0x20000..0x30000).contains(&lo) {
                    ranges.push((lo, lo + 0x8000, 1, 0));
                } else {
                    ranges.push((lo, lo + 0x8000, astral_stride, off));
                }
                lo += 0x8000;
            }
            for (lo, hi, stride, off) in ranges {
                let h = cx.sh.begin();
                let mut s = String::with_capacity(1 << 16);
                let _ = write!(
                    s,
                    "{{\"ev\":\"ES\",\"h\":{},\"enc\":\"{}\",\"source\":\"{}\",\"lo\":{},\"hi\":{},\"stride\":{},\"off\":{},\"mapped\":[",
                    h,
                    name,
                    if source == Source::Utf8 { "utf8" } else { "utf16" },
                    lo,
                    hi,
                    stride,
                    off
                );
                let mut first = true;
                let mut odd: Vec<u32> = Vec::new();
                let mut cases = 0usize;
                let mut cp = lo;
                while cp < hi {
                    if (0xD800..0xE000).contains(&cp) || (cp - lo) % stride != off % stride {
                        cp += 1;
                        continue;
                    }
                    cases += 1;
                    let (r, um, _rd, out) = encode_one(e, source, cp);
                    match r {
                        'I' => {
                            if !first {
                                s.push(',');
                            }
                            first = false;
                            let _ = write!(s, "[{}", cp);
                            for b in out.iter() {
                                let _ = write!(s, ",{}", b);
                            }
                            s.push(']');
                        }
                        'U' if um == cp && out.is_empty() => {}
                        'U' if *name == "ISO-2022-JP" && um == 0xFFFD && out.is_empty() && (cp == 0x0E || cp == 0x0F || cp == 0x1B) => {
                            // reported through the odd list so that the spec judges it
                            odd.push(cp);
                        }
                        _ => odd.push(cp),
                    }
                    cp += 1;
                }
                s.push_str("],\"odd\":");
                js_u32(&mut s, &odd);
                let _ = write!(s, ",\"cases\":{}}}", cases);
                cx.sh.line(&s);
            }
        }
    }
}

/// C03: every ordered pair (and a few triples) over the class alphabet as whole texts, both sources, with and
/// without replacement; lone / reversed / paired surrogates for UTF-16.
fn enc_pairs(cx: &mut Ctx) {
    let names: Vec<&str> = ENC_NAMES.iter().cloned().filter(|n| cx.wants(n)).collect();
    for name in names.iter() {
        let e = enc(name);
        let core = CORE.contains(name);
        let mut n = 0usize;
        for source in [Source::Utf8, Source::Utf16] {
            let mut alpha: Vec<u32> = ENC_SCALARS.to_vec();
            if source == Source::Utf16 {
                alpha.extend_from_slice(&LONE);
            }
            for &a in alpha.iter() {
                for &b in alpha.iter() {
                    if (0xD800..0xDC00).contains(&a) && (0xDC00..0xE000).contains(&b) {
                        continue; // would form a pair
                    }
                    n += 1;
                    if !core && !cx.thorough && (n + cx.seed as usize) % 4 != 0 {
                        continue;
                    }
                    let repl = n % 2 == 0;
                    let sink = if source == Source::Utf8 && n % 3 == 0 { ESink::Vec_ } else { ESink::Slice };
                    ewhole(cx, &ehc(e, source, sink, repl), &[a, b], n % 5 == 0);
                    if core && cx.thorough {
                        ewhole(cx, &ehc(e, source, ESink::Slice, !repl), &[a, b], false);
                    }
                }
                ewhole(cx, &ehc(e, source, ESink::Slice, false), &[a], false);
                ewhole(cx, &ehc(e, source, ESink::Slice, true), &[a], true);
            }
            // numeric character references: every decimal length boundary (and neighbours), with replacement,
            // alone and between neighbours (the NCR writer is shared by all encoders with unmappables)
            for &c in NCR_SCALARS.iter() {
                for t in [vec![c], vec![0x41, c, 0x42], vec![c, c]] {
                    ewhole(cx, &ehc(e, source, ESink::Slice, true), &t, false);
                }
            }
            for _ in 0..if cx.thorough { 400 } else { 60 } {
                let mut c = cx.rng.below(0x110000) as u32;
                if (0xD800..0xE000).contains(&c) {
                    c = 0xFFFD;
                }
                let q = cx.rng.chance(1, 2);
                ewhole(cx, &ehc(e, source, ESink::Slice, true), &[c], q);
            }
            // seeded random texts
            let cnt = if cx.thorough { 1500 } else { 150 };
            for i in 0..cnt {
                let len = cx.rng.below(24);
                let items = random_text(&mut cx.rng, name, source, len);
                ewhole(cx, &ehc(e, source, ESink::Slice, i % 2 == 0), &items, i % 3 == 0);
            }
        }
    }
}

fn random_text(rng: &mut Rng, name: &str, source: Source, len: usize) -> Vec<u32> {
    let sa = short_alphabet(name);
    let mut v: Vec<u32> = Vec::new();
    while v.len() < len {
        let c = match rng.below(10) {
            0..=2 => 0x20 + rng.below(0x5F) as u32,
            3..=4 => *rng.pick(&sa),
            5 => *rng.pick(&ENC_SCALARS),
            6 => 0x3041 + rng.below(0x56) as u32,
            7 => 0x4E00 + rng.below(0x5000) as u32,
            8 => {
                let c = rng.below(0x110000) as u32;
                if (0xD800..0xE000).contains(&c) {
                    0xFFFD
                } else {
                    c
                }
            }
            _ => {
                if source == Source::Utf16 && rng.chance(1, 2) {
                    *rng.pick(&LONE)
                } else {
                    0xAC00 + rng.below(0x2BA4) as u32
                }
            }
        };
        if let Some(&p) = v.last() {
            if (0xD800..0xDC00).contains(&p) && (0xDC00..0xE000).contains(&c) {
                continue;
            }
        }
        v.push(c);
    }
    v
}

/// C04: all cut sets of short texts x capacities around the space-check thresholds and NCR_EXTRA.
fn enc_cutsets(cx: &mut Ctx) {
    let names: Vec<&str> = ENC_NAMES.iter().cloned().filter(|n| cx.wants(n)).collect();
    for (ei, name) in names.iter().enumerate() {
        let e = enc(name);
        let core = CORE.contains(name);
        if !core && !cx.thorough && (cx.seed as usize + ei) % 7 != 2 {
            continue;
        }
        let mut hcount = 0usize;
        for source in [Source::Utf8, Source::Utf16] {
            let mut alpha = short_alphabet(name);
            if source == Source::Utf16 {
                alpha.extend_from_slice(&LONE);
            }
            let maxlen = if cx.thorough { 4 } else { 3 };
            let mut texts: Vec<Vec<u32>> = Vec::new();
            for len in 1..=maxlen {
                let idx: Vec<u8> = (0..alpha.len() as u8).collect();
                let mut k = 0usize;
                let seed = cx.seed as usize;
                for_all_strings(&idx, len, &mut |s| {
                    k += 1;
                    if len == 4 && (k + seed) % 6 != 0 {
                        return;
                    }
                    let t: Vec<u32> = s.iter().map(|&i| alpha[i as usize]).collect();
                    for w in t.windows(2) {
                        if (0xD800..0xDC00).contains(&w[0]) && (0xDC00..0xE000).contains(&w[1]) {
                            return;
                        }
                    }
                    texts.push(t);
                });
            }
            for t in texts.iter() {
                let n = t.len();
                let ncuts = 1usize << (n - 1);
                for mask in 0..ncuts {
                    let mut ends: Vec<usize> = Vec::new();
                    for i in 1..n {
                        if mask & (1 << (i - 1)) != 0 {
                            ends.push(i);
                        }
                    }
                    hcount += 1;
                    let repl = hcount % 2 == 0;
                    let sink = if source == Source::Utf8 && hcount % 4 == 1 { ESink::Vec_ } else { ESink::Slice };
                    let m = if repl { 14 } else { 4 };
                    let caps: Vec<usize> = if repl { vec![m, m + 1, m + 2, m + 3, m + 4, m + 6, 64] } else { vec![m, m + 1, m + 2, m + 3, m + 4, 10, 11, 13, 64] };
                    let capsel: Vec<usize> = if cx.thorough && mask % 2 == 0 { caps.clone() } else { vec![caps[(hcount / 4) % caps.len()], caps[(hcount / 4 + 3) % caps.len()]] };
                    for c in capsel {
                        let mut cfg = ehc(e, source, sink, repl);
                        cfg.twins = hcount % 5 == 0;
                        cfg.prelen = hcount % 4;
                        let mut capf = |_i: usize| enc::CapSpec::Fixed(c);
                        enc::run_chunked(&mut cx.sh, &cfg, t, &ends, &mut capf, hcount % 3 == 0);
                    }
                }
            }
        }
    }
}

fn enc_random(cx: &mut Ctx) {
    let names: Vec<&str> = ENC_NAMES.iter().cloned().filter(|n| cx.wants(n)).collect();
    let per = if cx.thorough { 2500 } else { 250 };
    for name in names.iter() {
        let e = enc(name);
        let n = if CORE.contains(name) { per } else { per / 5 };
        for i in 0..n {
            let source = if cx.rng.chance(1, 2) { Source::Utf8 } else { Source::Utf16 };
            let len = if i % 10 == 0 { cx.rng.below(100) } else { cx.rng.below(20) };
            let items = random_text(&mut cx.rng, name, source, len);
            let sink = if source == Source::Utf8 && cx.rng.chance(1, 3) { ESink::Vec_ } else { ESink::Slice };
            let mut cfg = ehc(e, source, sink, cx.rng.chance(1, 2));
            cfg.twins = cx.rng.chance(1, 4);
            cfg.prelen = cx.rng.below(6);
            let mc = 1 + cx.rng.below(5);
            let capmax = cx.rng.below(8);
            let mut r2 = Rng::new(cx.rng.next());
            enc::run_random(&mut cx.sh, &cfg, &items, &mut r2, mc, capmax);
        }
    }
}

fn deep_alphabet(name: &str) -> Vec<u8> {
    match name {
        "ISO-2022-JP" => vec![0x1B, 0x24, 0x28, 0x42, 0x4A, 0x41, 0x0E],
        "gb18030" | "GBK" => vec![0x81, 0x30, 0x84, 0x39, 0x41, 0xFE, 0x80],
        "EUC-JP" => vec![0x8E, 0x8F, 0xA1, 0x41, 0xFF, 0xB0],
        "Big5" => vec![0x87, 0x40, 0xA4, 0x41, 0xFF, 0x88, 0x62],
        "UTF-8" => vec![0x41, 0xC2, 0xE0, 0xA0, 0xF0, 0x90, 0x80, 0xFF],
        "UTF-16LE" | "UTF-16BE" => vec![0x00, 0xD8, 0xDC, 0x41, 0xFF],
        "Shift_JIS" => vec![0x81, 0x40, 0x80, 0xA1, 0xFC, 0x41],
        "EUC-KR" => vec![0x81, 0x41, 0xA1, 0xFF, 0xC7],
        "replacement" => vec![0x41, 0x80],
        "x-user-defined" => vec![0x41, 0x80, 0xFF],
        _ => vec![0x41, 0x80, 0x98, 0xFF],
    }
}

/// whole characters (valid sequences of every length class, plus a lone lead) of an encoding: streams built from
/// these reach the bulk / fast paths with several characters in one buffer
fn char_alphabet(name: &str) -> Vec<Vec<u8>> {
    let v: Vec<&[u8]> = match name {
        "UTF-8" => vec![&[0x41], &[0xC3, 0xA9], &[0xE2, 0x82, 0xAC], &[0xF0, 0x9F, 0x92, 0xA9], &[0xC3]],
        "UTF-16LE" => vec![&[0x41, 0x00], &[0xE9, 0x00], &[0xAC, 0x20], &[0x3D, 0xD8, 0xA9, 0xDC], &[0x00, 0xD8], &[0x00, 0xDC], &[0xFF, 0xDF], &[0x41]],
        "UTF-16BE" => vec![&[0x00, 0x41], &[0x00, 0xE9], &[0x20, 0xAC], &[0xD8, 0x3D, 0xDC, 0xA9], &[0xD8, 0x00], &[0xDC, 0x00], &[0xDF, 0xFF], &[0x41]],
        "Big5" => vec![&[0x41], &[0xA4, 0x40], &[0x88, 0x62], &[0xFA, 0x40], &[0xA4]],
        "gb18030" | "GBK" => vec![&[0x41], &[0x81, 0x40], &[0x81, 0x30, 0x81, 0x30], &[0x90, 0x30, 0x81, 0x30], &[0x80], &[0x81, 0x30]],
        "EUC-JP" => vec![&[0x41], &[0xA4, 0xA2], &[0x8E, 0xB1], &[0x8F, 0xB0, 0xA1], &[0x8F]],
        "Shift_JIS" => vec![&[0x41], &[0x82, 0xA0], &[0xB1], &[0x80], &[0x82]],
        "EUC-KR" => vec![&[0x41], &[0x2C], &[0xB0, 0xA1], &[0x81, 0x41], &[0xB0]],
        "ISO-2022-JP" => vec![&[0x41], &[0x1B, 0x24, 0x42], &[0x24, 0x22], &[0x1B, 0x28, 0x42], &[0x1B, 0x28, 0x4A], &[0x5C]],
        _ => vec![&[0x41], &[0x2C], &[0xE9], &[0x80]],
    };
    v.into_iter().map(|x| x.to_vec()).collect()
}

/// deep bounded-exhaustive profile: every stream up to length 5 (thorough: 6) over a small per-encoding alphabet,
/// whole and cut in two at every position, at the documented minimum capacities (and minimum + 1), with and
/// without replacement.  Reaches multi-error interactions inside one call that short class-alphabet streams miss.
fn dec_deep(cx: &mut Ctx) {
    let names: Vec<&str> = CORE.iter().cloned().chain(["windows-1252"].iter().cloned()).filter(|n| cx.wants(n)).collect();
    for name in names.iter() {
        let e = enc(name);
        let alpha = deep_alphabet(name);
        let maxlen = if cx.thorough { 6 } else { 5 };
        let mut streams: Vec<Vec<u8>> = Vec::new();
        for len in 1..=maxlen {
            for_all_strings(&alpha, len, &mut |s| streams.push(s.to_vec()));
        }
        // character-level streams: every sequence of up to 5 (6) whole characters
        {
            let ca = char_alphabet(name);
            let idx: Vec<u8> = (0..ca.len() as u8).collect();
            let maxc = if cx.thorough { 6 } else { 5 };
            for len in 2..=maxc {
                if ca.len() >= 7 && len >= 5 && !cx.thorough {
                    continue;
                }
                for_all_strings(&idx, len, &mut |ix| {
                    let mut v: Vec<u8> = Vec::new();
                    for &i in ix.iter() {
                        v.extend_from_slice(&ca[i as usize]);
                    }
                    streams.push(v);
                });
            }
        }
        let mut k = 0usize;
        for s in streams.iter() {
            k += 1;
            let n = s.len();
            let x = k % 4; // capacities minimum .. minimum + 3 rotate over the streams
            let combos: [(Sink, bool, usize); 4] = [(Sink::Utf8, true, 0), (Sink::Utf16, true, x % 3), (Sink::Utf8, false, x), (Sink::Utf16, false, (x + 1) % 4)];
            // whole stream in every combination
            for (ci, (sink, repl, extra)) in combos.iter().enumerate() {
                if !cx.thorough && n >= 5 && (k + ci + cx.seed as usize) % 2 != 0 {
                    continue;
                }
                let cfg = hc(e, Mode::Off, *sink, *repl);
                let c = sink.min_cap() + extra;
                let mut capf = |_i: usize| CapSpec::Fixed(c);
                run_chunked(&mut cx.sh, &cfg, s, &[], &mut capf, k % 2 == 0, false);
            }
            // one cut at a rotating position
            if n >= 2 {
                let cut = 1 + (k % (n - 1));
                let (sink, repl, extra) = combos[k % 4];
                let cfg = hc(e, Mode::Off, sink, repl);
                let c = sink.min_cap() + extra;
                let mut capf = |_i: usize| CapSpec::Fixed(c);
                run_chunked(&mut cx.sh, &cfg, s, &[cut], &mut capf, k % 3 == 0, false);
            }
        }
    }
}

fn main() {
    std::panic::set_hook(Box::new(|_| {}));
    let args: Vec<String> = std::env::args().collect();
    if args.len() < 2 {
        eprintln!("usage: verif_harness <profile> --out DIR [--shards N] [--seed S] [--tier quick|thorough] [--only enc,enc]");
        std::process::exit(2);
    }
    let profile = args[1].clone();
    let out = arg_val(&args, "--out").unwrap_or_else(|| "run/tmp".to_string());
    let shards = arg_usize(&args, "--shards", 16);
    let seed = arg_usize(&args, "--seed", 1) as u64;
    let thorough = arg_val(&args, "--tier").map(|t| t == "thorough").unwrap_or(false);
    let only = arg_val(&args, "--only");
    if args.iter().any(|a| a == "--force-scalar") {
        #[cfg(feature = "hooks")]
        encoding_rs::verif_hooks::set_force_scalar_utf8_validation(true);
        #[cfg(not(feature = "hooks"))]
        {
            eprintln!("--force-scalar needs the harness built with --features hooks");
            std::process::exit(2);
        }
    }
    let _ = OVERRIDES.set(Overrides {
        sinks: arg_val(&args, "--sinks").map(|v| v.split(',').map(|x| x.to_string()).collect()),
        repl: arg_val(&args, "--repl").map(|v| v == "on"),
        cap: arg_val(&args, "--cap"),
        twins: args.iter().any(|a| a == "--twins"),
        manual: args.iter().any(|a| a == "--manual"),
        latin1: args.iter().any(|a| a == "--latin1"),
        modes: arg_val(&args, "--modes").map(|v| v.split(',').map(|x| x.to_string()).collect()),
        thin: arg_usize(&args, "--thin", 0),
    });
    let mut cx = Ctx { sh: Shards::new(&out, &profile, shards), rng: Rng::new(seed), thorough, seed, only };
    match profile.as_str() {
        "dec-whole" => dec_whole(&mut cx),
        "dec-cutsets" => dec_cutsets(&mut cx),
        "dec-random" => dec_random(&mut cx),
        "dec-bom" => dec_bom(&mut cx),
        "dec-deep" => dec_deep(&mut cx),
        "enc-sweep" => enc_sweep(&mut cx),
        "enc-pairs" => enc_pairs(&mut cx),
        "enc-cutsets" => enc_cutsets(&mut cx),
        "enc-random" => enc_random(&mut cx),
        "enc-replay" => enc::replay(&mut cx.sh, &arg_val(&args, "--in").expect("--in FILE")),
        "guard" => {
            guard::parent(seed, thorough, &out);
            std::process::exit(0);
        }
        "guard-child" => {
            guard::child(seed, thorough, arg_usize(&args, "--from", 0), &format!("{}/progress", out), &out);
            std::process::exit(0);
        }
        "mem" => mem::mem(&mut cx, &arg_val(&args, "--which").unwrap_or_else(|| "all".to_string())),
        "labels" => misc::labels(&mut cx, &arg_val(&args, "--data").unwrap_or_else(|| "/verif/spec/data".to_string())),
        "oneshot" => misc::oneshot(&mut cx),
        "meta" => misc::meta(&mut cx),
        "forbom" => misc::forbom(&mut cx),
        "query-overflow" => misc::query_overflow(&mut cx),
        "dec-replay" => dec::replay(&mut cx.sh, &arg_val(&args, "--in").expect("--in FILE")),
        "oneshot-replay" => misc::oneshot_replay(&mut cx, &arg_val(&args, "--in").expect("--in FILE")),
        "oneshot-enc-replay" => misc::oneshot_enc_replay(&mut cx, &arg_val(&args, "--in").expect("--in FILE")),
        _ => {
            eprintln!("unknown profile {}", profile);
            std::process::exit(2);
        }
    }
    let (h, e) = cx.sh.finish();
    println!("{{\"profile\":\"{}\",\"histories\":{},\"events\":{}}}", profile, h, e);
}
