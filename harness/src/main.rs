// verif_harness: drives the real encoding_rs API and records ndjson traces for TLC trace validation.
mod dec;
mod inputs;
mod util;

use dec::*;
use inputs::*;
use util::*;

pub struct Ctx {
    pub sh: Shards,
    pub rng: Rng,
    pub thorough: bool,
    pub seed: u64,
    pub only: Option<String>,
}

impl Ctx {
    fn wants(&self, name: &str) -> bool {
        match &self.only {
            Some(o) => o.split(',').any(|x| x == name),
            None => true,
        }
    }
}

fn hc(enc: &'static encoding_rs::Encoding, mode: Mode, sink: Sink, repl: bool) -> HistCfg {
    HistCfg { enc, mode, sink, repl, twins: false, latin1: 0, unit: 3, prelen: 0 }
}

fn whole(cx: &mut Ctx, cfg: &HistCfg, stream: &[u8], q: bool) {
    let big = stream.len() * 3 + 16;
    let mut caps = |_i: usize| if q { CapSpec::Query(0) } else { CapSpec::Fixed(big) };
    run_chunked(&mut cx.sh, cfg, stream, &[], &mut caps, false, false);
}

/// C01: complete streams through the four whole-stream forms.
fn dec_whole(cx: &mut Ctx) {
    let names: Vec<&str> = ENC_NAMES.iter().cloned().filter(|n| cx.wants(n)).collect();
    for name in names.iter() {
        let e = enc(name);
        let combos = [(Sink::Utf8, false), (Sink::Utf16, false), (Sink::Utf8, true), (Sink::Utf16, true)];
        // every 1-byte string, all four forms
        for b in 0..=255u8 {
            for (s, r) in combos.iter() {
                whole(cx, &hc(e, Mode::Off, *s, *r), &[b], b % 2 == 0);
            }
        }
        // every 2-byte string
        let core = CORE.contains(name);
        let do2 = core || cx.thorough || (cx.seed as usize + ENC_NAMES.iter().position(|n| n == name).unwrap()) % 7 == 0;
        if do2 {
            for a in 0..=255u8 {
                for b in 0..=255u8 {
                    let k = (a as usize * 256 + b as usize) % 4;
                    let (s, r) = if core && a >= 0x80 || cx.thorough { combos[(k + (a as usize)) % 2] } else { combos[k] };
                    whole(cx, &hc(e, Mode::Off, s, r), &[a, b], false);
                    if cx.thorough && core && a >= 0x80 {
                        let (s, r) = combos[2 + (k % 2)];
                        whole(cx, &hc(e, Mode::Off, s, r), &[a, b], false);
                    }
                }
            }
        }
        // 3- and 4-byte strings over the class alphabet
        if core {
            let alpha = alphabet(name);
            let maxlen = match *name {
                "gb18030" | "GBK" => 4,
                "UTF-8" | "EUC-JP" | "ISO-2022-JP" | "UTF-16BE" | "UTF-16LE" => 4,
                _ => 3,
            };
            let mut n = 0usize;
            for len in 3..=maxlen {
                if len == 4 && !cx.thorough && alpha.len() > 12 {
                    // quick tier: a seeded 1/8 slice of the 4-byte space
                    let seed = cx.seed as usize;
                    let mut v: Vec<Vec<u8>> = Vec::new();
                    for_all_strings(&alpha, len, &mut |s| {
                        n += 1;
                        if (n + seed) % 8 == 0 {
                            v.push(s.to_vec());
                        }
                    });
                    for s in v {
                        let k = s.iter().map(|x| *x as usize).sum::<usize>() % 4;
                        whole(cx, &hc(e, Mode::Off, combos[k].0, combos[k].1), &s, false);
                    }
                } else {
                    let mut v: Vec<Vec<u8>> = Vec::new();
                    for_all_strings(&alpha, len, &mut |s| v.push(s.to_vec()));
                    for s in v {
                        let k = s.iter().map(|x| *x as usize).sum::<usize>() % 4;
                        whole(cx, &hc(e, Mode::Off, combos[k].0, combos[k].1), &s, false);
                    }
                }
            }
        }
        // structured sweeps: every pointer of the longer forms
        match *name {
            "EUC-JP" => {
                let step = if cx.thorough { 1 } else { 3 };
                let mut i = cx.seed as usize % step;
                for l in 0xA1..=0xFEu8 {
                    for t in 0xA1..=0xFEu8 {
                        i += 1;
                        if i % step == 0 {
                            whole(cx, &hc(e, Mode::Off, Sink::Utf16, false), &[0x8F, l, t], false);
                        }
                    }
                }
            }
            "gb18030" | "GBK" => {
                // all four-byte range pointers 0..39419 (+ neighbours) and astral edges
                let step = if cx.thorough { 1 } else { 7 };
                let mut p = cx.seed as usize % step;
                let mut ps: Vec<usize> = Vec::new();
                while p < 39500 {
                    ps.push(p);
                    p += step;
                }
                ps.extend_from_slice(&[0, 7456, 7457, 7458, 39419, 39420, 39421, 188999, 189000, 189001, 1237575, 1237576, 1237577]);
                let mut q = 189000 + (cx.seed as usize % 997);
                while q < 1237576 {
                    ps.push(q);
                    q += if cx.thorough { 997 } else { 9973 };
                }
                for p in ps {
                    let b1 = p / 12600;
                    let r = p % 12600;
                    let b2 = r / 1260;
                    let r = r % 1260;
                    let b3 = r / 10;
                    let b4 = r % 10;
                    if b1 + 0x81 > 0xFE {
                        continue;
                    }
                    let s = [(b1 + 0x81) as u8, (b2 + 0x30) as u8, (b3 + 0x81) as u8, (b4 + 0x30) as u8];
                    whole(cx, &hc(e, Mode::Off, if p % 2 == 0 { Sink::Utf16 } else { Sink::Utf8 }, false), &s, false);
                }
            }
            _ => {}
        }
        // seeded grammar-based long strings
        let n = if cx.thorough { 3000 } else { 300 } * if core { 2 } else { 1 } / 2;
        for i in 0..n {
            let s = grammar_string(name, &mut cx.rng, 48);
            let (sk, r) = combos[i % 4];
            let mode = if i % 5 == 0 { Mode::Sniff } else { Mode::Off };
            whole(cx, &hc(e, mode, sk, r), &s, i % 3 == 0);
        }
    }
}

fn caps_list(sink: Sink, thorough: bool) -> Vec<usize> {
    let m = sink.min_cap();
    if thorough {
        vec![m, m + 1, m + 2, m + 3, m + 4, m + 5, 64]
    } else {
        vec![m, m + 1, m + 2, m + 3, 64]
    }
}

/// C02: all cut sets of short streams over the class alphabets x capacities x sinks x modes.
fn dec_cutsets(cx: &mut Ctx) {
    let names: Vec<&str> = ENC_NAMES.iter().cloned().filter(|n| cx.wants(n)).collect();
    for name in names.iter() {
        let e = enc(name);
        let core = CORE.contains(name);
        if !core && !cx.thorough && (cx.seed as usize + ENC_NAMES.iter().position(|n| n == name).unwrap()) % 7 != 1 {
            continue;
        }
        let alpha = alphabet(name);
        let maxlen = if cx.thorough { 4 } else { 3 };
        let mut streams: Vec<Vec<u8>> = Vec::new();
        for len in 1..=maxlen {
            if len == 4 && alpha.len() > 12 {
                let mut n = 0usize;
                let seed = cx.seed as usize;
                for_all_strings(&alpha, len, &mut |s| {
                    n += 1;
                    if (n + seed) % 16 == 0 {
                        streams.push(s.to_vec());
                    }
                });
            } else {
                for_all_strings(&alpha, len, &mut |s| streams.push(s.to_vec()));
            }
        }
        // longer seeded streams (lengths 5..7) so that four-byte forms are cut at every place
        let extra = if cx.thorough { 400 } else { 60 };
        for _ in 0..extra {
            let mut s = grammar_string(name, &mut cx.rng, 7);
            s.truncate(7);
            if s.len() >= 4 {
                streams.push(s);
            }
        }
        let mut hcount = 0usize;
        for s in streams.iter() {
            let n = s.len();
            let ncuts = 1usize << (n - 1);
            for mask in 0..ncuts {
                let mut ends: Vec<usize> = Vec::new();
                for i in 1..n {
                    if mask & (1 << (i - 1)) != 0 {
                        ends.push(i);
                    }
                }
                hcount += 1;
                // rotate the (sink, repl, cap, mode) combination deterministically so that every stream/cut set
                // meets every sink and a spread of capacities; thorough runs all capacities for raw sinks
                let sink = ALL_SINKS[(hcount + cx.seed as usize) % 4];
                let repl = (hcount / 4) % 2 == 0;
                let caps = caps_list(sink, cx.thorough);
                let mode = if hcount % 11 == 0 { Mode::Sniff } else { Mode::Off };
                let capsel: Vec<usize> = if cx.thorough && mask % 2 == 0 { caps.clone() } else { vec![caps[(hcount / 8) % caps.len()]] };
                for c in capsel {
                    let mut cfg = hc(e, mode, sink, repl);
                    cfg.twins = hcount % 5 == 0;
                    cfg.unit = 1 + (hcount % 4);
                    cfg.prelen = hcount % 6;
                    let mut capf = |_i: usize| CapSpec::Fixed(c);
                    run_chunked(&mut cx.sh, &cfg, s, &ends, &mut capf, hcount % 3 == 0, hcount % 16 == 0);
                }
            }
        }
    }
}

/// seeded random histories on long grammar strings (re-cuts, empty calls, queries, all sinks and modes)
fn dec_random(cx: &mut Ctx) {
    let names: Vec<&str> = ENC_NAMES.iter().cloned().filter(|n| cx.wants(n)).collect();
    let per = if cx.thorough { 2500 } else { 250 };
    for name in names.iter() {
        let e = enc(name);
        let n = if CORE.contains(name) { per } else { per / 5 };
        for i in 0..n {
            let s = grammar_string(name, &mut cx.rng, if i % 10 == 0 { 120 } else { 24 });
            let sink = ALL_SINKS[cx.rng.below(4)];
            let mode = ALL_MODES[cx.rng.below(3)];
            let mut cfg = hc(e, mode, sink, cx.rng.chance(1, 2));
            cfg.twins = cx.rng.chance(1, 4);
            cfg.latin1 = if cx.rng.chance(1, 3) { 1 + cx.rng.below(3) } else { 0 };
            cfg.unit = 1 + cx.rng.below(4);
            cfg.prelen = cx.rng.below(8);
            let mut stream = s;
            if mode != Mode::Off && cx.rng.chance(1, 3) {
                // plant a BOM or a BOM look-alike in front
                let pre: &[u8] = *cx.rng.pick(&[&[0xEFu8, 0xBB, 0xBF][..], &[0xFE, 0xFF], &[0xFF, 0xFE], &[0xEF, 0xBB], &[0xEF], &[0xFE], &[0xFF], &[0xEF, 0xBF]]);
                let mut v = pre.to_vec();
                v.extend(stream);
                stream = v;
            }
            let mc = 1 + cx.rng.below(6);
            let capmax = cx.rng.below(6);
            let mut r2 = Rng::new(cx.rng.next());
            run_random(&mut cx.sh, &cfg, &stream, &mut r2, mc, capmax);
        }
    }
}

/// C10: BOM matrix - every prefix of length 0..3 over the BOM alphabet followed by <= 2 tail bytes, all
/// cut sets, three modes, capacities around the minimum, both raw sinks, with/without replacement.
fn dec_bom(cx: &mut Ctx) {
    let names: Vec<&str> = ENC_NAMES.iter().cloned().filter(|n| cx.wants(n)).collect();
    for (ei, name) in names.iter().enumerate() {
        let e = enc(name);
        let core = CORE.contains(name);
        let mut streams: Vec<Vec<u8>> = vec![vec![]];
        for len in 1..=3 {
            for_all_strings(&BOM_ALPHABET, len, &mut |s| streams.push(s.to_vec()));
        }
        // tails: bytes with meaning in the nominal encoding
        let alpha = alphabet(name);
        let tails: Vec<Vec<u8>> = vec![vec![], vec![0x41], vec![alpha[alpha.len() / 2]], vec![0x1B, 0x24], vec![*alpha.last().unwrap(), 0x41]];
        let mut hcount = 0usize;
        for p in streams.iter() {
            for (ti, t) in tails.iter().enumerate() {
                if !cx.thorough && !core && (ti + p.len() + ei + cx.seed as usize) % 3 != 0 {
                    continue;
                }
                let mut s = p.clone();
                s.extend(t);
                let n = s.len();
                if n == 0 {
                    for mode in ALL_MODES.iter() {
                        for sink in [Sink::Utf8, Sink::Utf16] {
                            let cfg = hc(e, *mode, sink, false);
                            let mut capf = |_i: usize| CapSpec::Fixed(sink.min_cap());
                            run_chunked(&mut cx.sh, &cfg, &s, &[], &mut capf, false, false);
                        }
                    }
                    continue;
                }
                let ncuts = 1usize << (n - 1).min(3);
                for mask in 0..ncuts {
                    let mut ends: Vec<usize> = Vec::new();
                    for i in 1..n.min(4) {
                        if mask & (1 << (i - 1)) != 0 {
                            ends.push(i);
                        }
                    }
                    for mode in ALL_MODES.iter() {
                        hcount += 1;
                        let sink = if hcount % 2 == 0 { Sink::Utf8 } else { Sink::Utf16 };
                        let repl = (hcount / 2) % 2 == 0;
                        let m = sink.min_cap();
                        let caps: Vec<usize> = if cx.thorough || core { vec![m, m + 1, m + 2, 64] } else { vec![[m, m + 1, m + 2, 64][(hcount / 4) % 4]] };
                        for c in caps {
                            let mut cfg = hc(e, *mode, sink, repl);
                            cfg.latin1 = if hcount % 3 == 0 { 1 } else { 0 };
                            let mut capf = |_i: usize| CapSpec::Fixed(c);
                            run_chunked(&mut cx.sh, &cfg, &s, &ends, &mut capf, hcount % 4 == 1, false);
                        }
                    }
                }
            }
        }
    }
}

fn main() {
    std::panic::set_hook(Box::new(|_| {}));
    let args: Vec<String> = std::env::args().collect();
    if args.len() < 2 {
        eprintln!("usage: verif_harness <profile> --out DIR [--shards N] [--seed S] [--tier quick|thorough] [--only enc,enc]");
        std::process::exit(2);
    }
    let profile = args[1].clone();
    let out = arg_val(&args, "--out").unwrap_or_else(|| "run/tmp".to_string());
    let shards = arg_usize(&args, "--shards", 16);
    let seed = arg_usize(&args, "--seed", 1) as u64;
    let thorough = arg_val(&args, "--tier").map(|t| t == "thorough").unwrap_or(false);
    let only = arg_val(&args, "--only");
    let mut cx = Ctx { sh: Shards::new(&out, &profile, shards), rng: Rng::new(seed), thorough, seed, only };
    match profile.as_str() {
        "dec-whole" => dec_whole(&mut cx),
        "dec-cutsets" => dec_cutsets(&mut cx),
        "dec-random" => dec_random(&mut cx),
        "dec-bom" => dec_bom(&mut cx),
        "dec-replay" => dec::replay(&mut cx.sh, &arg_val(&args, "--in").expect("--in FILE")),
        _ => {
            eprintln!("unknown profile {}", profile);
            std::process::exit(2);
        }
    }
    let (h, e) = cx.sh.finish();
    println!("{{\"profile\":\"{}\",\"histories\":{},\"events\":{}}}", profile, h, e);
}
