// Shared helpers: deterministic PRNG, ndjson shard writer, guarded buffers.
// The harness is a dumb driver/recorder: it contains no oracle logic.
use std::fmt::Write as FmtWrite;
use std::fs::File;
use std::io::{BufWriter, Write};

pub struct Rng(pub u64);
impl Rng {
    pub fn new(seed: u64) -> Rng {
        Rng(seed.wrapping_mul(0x9E3779B97F4A7C15) ^ 0xD1B54A32D192ED03)
    }
    pub fn next(&mut self) -> u64 {
        // splitmix64
        self.0 = self.0.wrapping_add(0x9E3779B97F4A7C15);
        let mut z = self.0;
        z = (z ^ (z >> 30)).wrapping_mul(0xBF58476D1CE4E5B9);
        z = (z ^ (z >> 27)).wrapping_mul(0x94D049BB133111EB);
        z ^ (z >> 31)
    }
    pub fn below(&mut self, n: usize) -> usize {
        if n == 0 {
            0
        } else {
            (self.next() % (n as u64)) as usize
        }
    }
    pub fn chance(&mut self, num: usize, den: usize) -> bool {
        self.below(den) < num
    }
    pub fn pick<'a, T>(&mut self, s: &'a [T]) -> &'a T {
        &s[self.below(s.len())]
    }
}

pub struct Shards {
    files: Vec<BufWriter<File>>,
    pub histories: u64,
    pub events: u64,
    cur: usize,
}
impl Shards {
    pub fn new(dir: &str, prefix: &str, n: usize) -> Shards {
        std::fs::create_dir_all(dir).unwrap();
        let files = (0..n)
            .map(|i| BufWriter::with_capacity(1 << 20, File::create(format!("{}/{}_{:03}.ndjson", dir, prefix, i)).unwrap()))
            .collect();
        Shards { files, histories: 0, events: 0, cur: 0 }
    }
    /// start a new history: subsequent lines go to the next shard (round robin)
    pub fn begin(&mut self) -> u64 {
        self.histories += 1;
        self.cur = (self.histories as usize) % self.files.len();
        self.histories
    }
    pub fn line(&mut self, s: &str) {
        self.events += 1;
        let f = &mut self.files[self.cur];
        f.write_all(s.as_bytes()).unwrap();
        f.write_all(b"\n").unwrap();
    }
    pub fn finish(mut self) -> (u64, u64) {
        for f in self.files.iter_mut() {
            f.flush().unwrap();
        }
        (self.histories, self.events)
    }
}

pub fn js_u8(s: &mut String, v: &[u8]) {
    s.push('[');
    for (i, b) in v.iter().enumerate() {
        if i > 0 {
            s.push(',');
        }
        let _ = write!(s, "{}", b);
    }
    s.push(']');
}
pub fn js_u16(s: &mut String, v: &[u16]) {
    s.push('[');
    for (i, b) in v.iter().enumerate() {
        if i > 0 {
            s.push(',');
        }
        let _ = write!(s, "{}", b);
    }
    s.push(']');
}
pub fn js_u32(s: &mut String, v: &[u32]) {
    s.push('[');
    for (i, b) in v.iter().enumerate() {
        if i > 0 {
            s.push(',');
        }
        let _ = write!(s, "{}", b);
    }
    s.push(']');
}
pub fn js_usize(s: &mut String, v: &[usize]) {
    s.push('[');
    for (i, b) in v.iter().enumerate() {
        if i > 0 {
            s.push(',');
        }
        let _ = write!(s, "{}", b);
    }
    s.push(']');
}

pub const BAND: usize = 64;
pub const CANARY: u8 = 0xC9;

/// Heap buffer of exactly `len` usable units with canary bands on both sides.
pub struct Guarded<T: Copy + PartialEq> {
    buf: Vec<T>,
    len: usize,
    canary: T,
}
impl<T: Copy + PartialEq> Guarded<T> {
    pub fn new(len: usize, fill: T, canary: T) -> Guarded<T> {
        let mut buf = vec![canary; len + 2 * BAND];
        for x in buf[BAND..BAND + len].iter_mut() {
            *x = fill;
        }
        Guarded { buf, len, canary }
    }
    pub fn slice(&mut self) -> &mut [T] {
        let l = self.len;
        &mut self.buf[BAND..BAND + l]
    }
    pub fn get(&self) -> &[T] {
        &self.buf[BAND..BAND + self.len]
    }
    pub fn intact(&self) -> bool {
        self.buf[..BAND].iter().all(|x| *x == self.canary) && self.buf[BAND + self.len..].iter().all(|x| *x == self.canary)
    }
}

/// valid UTF-8 filler text of exactly `len` bytes built from `unit`-byte characters (padded with ASCII)
pub fn filler(len: usize, unit: usize, shift: usize) -> String {
    let ch = match unit {
        1 => "a",
        2 => "\u{e9}",
        3 => "\u{20ac}",
        _ => "\u{1d11e}",
    };
    let mut s = String::with_capacity(len);
    let pad = shift.min(len);
    for _ in 0..pad {
        s.push('x');
    }
    while s.len() + ch.len() <= len {
        s.push_str(ch);
    }
    while s.len() < len {
        s.push('y');
    }
    s
}

pub fn arg_val(args: &[String], key: &str) -> Option<String> {
    args.iter().position(|a| a == key).and_then(|i| args.get(i + 1).cloned())
}
pub fn arg_usize(args: &[String], key: &str, default: usize) -> usize {
    arg_val(args, key).map(|v| v.parse().unwrap()).unwrap_or(default)
}

/// Profile overrides given on the command line (so that one generator serves several properties).
#[derive(Default, Debug)]
pub struct Overrides {
    pub sinks: Option<Vec<String>>, // rotate over these sink names
    pub repl: Option<bool>,
    pub cap: Option<String>, // "min" | "min1" | "query"
    pub twins: bool,
    pub manual: bool, // C09: drive a twin converter by the documented manual procedure and log its observation
    pub latin1: bool,
    pub modes: Option<Vec<String>>,
    pub thin: usize, // keep one history in `thin` (0/1 = all)
}
pub static OVERRIDES: std::sync::OnceLock<Overrides> = std::sync::OnceLock::new();
pub static ROT: std::sync::atomic::AtomicUsize = std::sync::atomic::AtomicUsize::new(0);
pub fn ov() -> &'static Overrides {
    OVERRIDES.get_or_init(Overrides::default)
}
pub fn rot() -> usize {
    ROT.fetch_add(1, std::sync::atomic::Ordering::Relaxed)
}
pub static THIN: std::sync::atomic::AtomicUsize = std::sync::atomic::AtomicUsize::new(0);
/// true if this history is to be skipped by the --thin knob
pub fn thinned() -> bool {
    let t = ov().thin;
    if t <= 1 {
        return false;
    }
    // pseudo-random (not periodic) thinning so that no systematic class of histories is dropped
    let k = THIN.fetch_add(1, std::sync::atomic::Ordering::Relaxed) as u64;
    let mut z = k.wrapping_mul(0x9E3779B97F4A7C15) ^ 0xD1B54A32D192ED03;
    z = (z ^ (z >> 30)).wrapping_mul(0xBF58476D1CE4E5B9);
    z = (z ^ (z >> 27)).wrapping_mul(0x94D049BB133111EB);
    (z ^ (z >> 31)) % (t as u64) != 0
}
