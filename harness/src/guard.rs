// Guard pages (C06): sources and destinations are placed flush against a PROT_NONE page, so a read or write
// beyond the end of a caller buffer is a SIGSEGV instead of a silent access.  The cases run in a child process;
// the parent records a "G" (fault) event for the case a child died in and restarts the child behind it.
// Normal completions are recorded as ordinary events and judged by the usual monitors.
use crate::inputs::*;
use crate::util::*;
use encoding_rs::mem::*;
use encoding_rs::*;
use std::fmt::Write as FmtWrite;
use std::io::Write;

const PAGE: usize = 4096;
const NSHARDS: usize = 8;

/// a mapping of `pages` usable pages followed by one PROT_NONE page
pub struct GuardMap {
    base: *mut u8,
    usable: usize,
}
impl GuardMap {
    pub fn new(pages: usize) -> GuardMap {
        unsafe {
            let total = (pages + 1) * PAGE;
            let p = libc::mmap(std::ptr::null_mut(), total, libc::PROT_READ | libc::PROT_WRITE, libc::MAP_PRIVATE | libc::MAP_ANONYMOUS, -1, 0);
            assert!(p != libc::MAP_FAILED);
            let base = p as *mut u8;
            let r = libc::mprotect(base.add(pages * PAGE) as *mut libc::c_void, PAGE, libc::PROT_NONE);
            assert!(r == 0);
            GuardMap { base, usable: pages * PAGE }
        }
    }
    /// slice of `len` elements of T ending exactly at the guard page
    pub fn tail<T: Copy>(&mut self, len: usize, fill: T) -> &mut [T] {
        let bytes = len * std::mem::size_of::<T>();
        assert!(bytes <= self.usable);
        unsafe {
            let p = self.base.add(self.usable - bytes) as *mut T;
            let s = std::slice::from_raw_parts_mut(p, len);
            for x in s.iter_mut() {
                *x = fill;
            }
            s
        }
    }
}

pub struct GCase {
    pub kind: u8, // 0 = decode, 1 = encode, 2 = mem
    pub enc: usize,
    pub sub: usize,
    pub data: Vec<u8>,
    pub cap: usize,
}

/// deterministic case enumerator shared by parent and child
pub fn case(seed: u64, k: usize, thorough: bool) -> Option<GCase> {
    let total = if thorough { 60000 } else { 9000 };
    if k >= total {
        return None;
    }
    let mut rng = Rng::new(seed.wrapping_mul(1_000_003).wrapping_add(k as u64));
    let kind = (k % 3) as u8;
    let enc = (k / 3) % 40;
    let name = ENC_NAMES[enc];
    let lens = [0usize, 1, 2, 3, 4, 5, 7, 8, 15, 16, 17, 31, 32, 33, 47, 63, 64, 65, 100, 127, 128, 129, 255, 256, 257, 1000, 4095, 4096, 4097];
    let len = lens[(k / 120) % lens.len()];
    let mut data = Vec::new();
    match kind {
        0 => {
            while data.len() < len {
                data.extend(tokens(name, &mut rng));
            }
            data.truncate(len);
        }
        _ => {
            // UTF-16 units as LE byte pairs / Latin1-UTF-8 material: built from a fill with a few injected units
            let fill = 1 + rng.below(7);
            let p8: &[&[u8]] = &[&[97], &[195, 169], &[226, 130, 172], &[240, 159, 146, 169], &[195, 191, 97], &[194, 128], &[215, 144, 32]];
            let pat = p8[fill - 1];
            data = (0..len).map(|i| pat[i % pat.len()]).collect();
            for _ in 0..rng.below(3) {
                if len > 0 {
                    let i = rng.below(len);
                    data[i] = *rng.pick(&[0x80u8, 0xC3, 0xE0, 0xED, 0xF0, 0xFF, 0x41, 0xD8, 0xDC]);
                }
            }
        }
    }
    // long inputs get a destination that takes them in one or two calls (every call logs its whole source)
    let cap = if len > 130 {
        len * 4 + 32
    } else {
        match rng.below(4) {
            0 => len * 3 + 16,
            1 => 4 + rng.below(8),
            2 => len + rng.below(4),
            _ => len / 2 + 4,
        }
    };
    Some(GCase { kind, enc, sub: rng.below(1000), data, cap })
}

fn run_case(g: &GCase, srcmap: &mut GuardMap, dstmap: &mut GuardMap, out: &mut String) {
    let e = ALL[g.enc];
    out.clear();
    if std::env::var("VERIF_GUARD_SELFTEST").is_ok() && g.sub % 97 == 5 {
        // self-test of the mechanism: a deliberate one-byte read beyond a guarded source must kill the child
        let src = srcmap.tail::<u8>(8, 0);
        unsafe {
            let p = src.as_ptr().add(8);
            let _ = std::ptr::read_volatile(p);
        }
    }
    match g.kind {
        0 => {
            let src = srcmap.tail::<u8>(g.data.len(), 0);
            src.copy_from_slice(&g.data);
            let mut d = if g.sub % 3 == 0 { e.new_decoder() } else { e.new_decoder_without_bom_handling() };
            // long inputs: with replacement, so that the whole input goes through in one call
            let repl = g.sub % 2 == 0 || g.data.len() > 130;
            let utf16 = (g.sub / 2) % 2 == 0;
            let cap = g.cap.max(if utf16 { 2 } else { 4 });
            let _ = write!(
                out,
                "{{\"ev\":\"N\",\"h\":0,\"enc\":\"{}\",\"mode\":\"{}\",\"sink\":\"{}\",\"repl\":{},\"bound\":false}}\n",
                e.name(),
                if g.sub % 3 == 0 { "sniff" } else { "off" },
                if utf16 { "utf16" } else { "utf8" },
                repl
            );
            let mut pos = 0usize;
            let mut calls = 0;
            loop {
                calls += 1;
                if calls > 8 * g.data.len() + 64 {
                    break;
                }
                let s = &src[pos..];
                let (res, ml, ma, rd, wr, had, units): (char, usize, usize, usize, usize, bool, Vec<u16>) = if utf16 {
                    let dst = dstmap.tail::<u16>(cap, 0xA5A5);
                    if repl {
                        let (r, rd, wr, had) = d.decode_to_utf16(s, dst, true);
                        (if r == CoderResult::InputEmpty { 'I' } else { 'O' }, 0, 0, rd, wr, had, dst[..wr].to_vec())
                    } else {
                        let (r, rd, wr) = d.decode_to_utf16_without_replacement(s, dst, true);
                        let (c, a, b) = match r {
                            DecoderResult::InputEmpty => ('I', 0, 0),
                            DecoderResult::OutputFull => ('O', 0, 0),
                            DecoderResult::Malformed(a, b) => ('M', a as usize, b as usize),
                        };
                        (c, a, b, rd, wr, false, dst[..wr].to_vec())
                    }
                } else {
                    let dst = dstmap.tail::<u8>(cap, 0xA5);
                    if repl {
                        let (r, rd, wr, had) = d.decode_to_utf8(s, dst, true);
                        (if r == CoderResult::InputEmpty { 'I' } else { 'O' }, 0, 0, rd, wr, had, dst[..wr].iter().map(|x| *x as u16).collect())
                    } else {
                        let (r, rd, wr) = d.decode_to_utf8_without_replacement(s, dst, true);
                        let (c, a, b) = match r {
                            DecoderResult::InputEmpty => ('I', 0, 0),
                            DecoderResult::OutputFull => ('O', 0, 0),
                            DecoderResult::Malformed(a, b) => ('M', a as usize, b as usize),
                        };
                        (c, a, b, rd, wr, false, dst[..wr].iter().map(|x| *x as u16).collect())
                    }
                };
                out.push_str("{\"ev\":\"D\",\"src\":");
                js_u8(out, s);
                let _ = write!(out, ",\"cap\":{},\"last\":true,\"res\":\"{}\",\"ml\":{},\"ma\":{},\"read\":{},\"written\":{},\"out\":", cap, res, ml, ma, rd, wr);
                js_u16(out, &units);
                let _ = write!(out, ",\"had\":{},\"enc\":\"{}\",\"q\":false,\"guard\":true,\"alt\":[]}}\n", had, d.encoding().name());
                pos += rd;
                if res == 'I' {
                    break;
                }
            }
        }
        1 => {
            // encode from UTF-16: units = LE pairs of the data (arbitrary units incl. unpaired surrogates)
            let units: Vec<u16> = g.data.chunks(2).map(|c| if c.len() == 2 { (c[1] as u16) << 8 | c[0] as u16 } else { c[0] as u16 }).collect();
            let src = srcmap.tail::<u16>(units.len(), 0);
            src.copy_from_slice(&units);
            let mut enc = e.new_encoder();
            let repl = g.sub % 2 == 0 || g.data.len() > 130;
            let cap = g.cap.max(if repl { 14 } else { 4 });
            let _ = write!(
                out,
                "{{\"ev\":\"NE\",\"h\":0,\"enc\":\"{}\",\"source\":\"utf16\",\"sink\":\"slice\",\"repl\":{},\"bound\":false}}\n",
                e.name(),
                repl
            );
            let mut pos = 0usize;
            let mut calls = 0;
            loop {
                calls += 1;
                if calls > 8 * units.len() + 64 {
                    break;
                }
                let s = &src[pos..];
                let dst = dstmap.tail::<u8>(cap, 0xA5);
                let (res, um, rd, wr, had) = if repl {
                    let (r, rd, wr, had) = enc.encode_from_utf16(s, dst, true);
                    (if r == CoderResult::InputEmpty { 'I' } else { 'O' }, 0u32, rd, wr, had)
                } else {
                    let (r, rd, wr) = enc.encode_from_utf16_without_replacement(s, dst, true);
                    match r {
                        EncoderResult::InputEmpty => ('I', 0, rd, wr, false),
                        EncoderResult::OutputFull => ('O', 0, rd, wr, false),
                        EncoderResult::Unmappable(c) => ('U', c as u32, rd, wr, false),
                    }
                };
                out.push_str("{\"ev\":\"E\",\"src\":");
                js_u16(out, s);
                let _ = write!(out, ",\"cap\":{},\"last\":true,\"res\":\"{}\",\"um\":{},\"read\":{},\"written\":{},\"out\":", cap, res, um, rd, wr);
                js_u8(out, &dst[..wr]);
                let _ = write!(out, ",\"had\":{},\"pending\":{},\"q\":false,\"guard\":true,\"alt\":[]}}\n", had, enc.has_pending_state());
                pos += rd;
                if res == 'I' {
                    break;
                }
            }
        }
        _ => {
            // mem functions and validators: results are not logged (C14-C16 judge them); only faults matter here
            let src8 = srcmap.tail::<u8>(g.data.len(), 0);
            src8.copy_from_slice(&g.data);
            let n = g.data.len();
            let _ = Encoding::utf8_valid_up_to(src8);
            let _ = Encoding::ascii_valid_up_to(src8);
            let _ = Encoding::iso_2022_jp_ascii_valid_up_to(src8);
            let _ = is_ascii(src8);
            let _ = is_utf8_latin1(src8);
            let _ = is_utf8_bidi(src8);
            let _ = utf8_latin1_up_to(src8);
            let _ = check_utf8_for_latin1_and_bidi(src8);
            {
                let d16 = dstmap.tail::<u16>(n + 1, 0xA5A5);
                let _ = convert_utf8_to_utf16(src8, d16);
            }
            {
                let d16 = dstmap.tail::<u16>(n, 0xA5A5);
                let _ = convert_utf8_to_utf16_without_replacement(src8, d16);
                convert_latin1_to_utf16(src8, d16);
                let _ = copy_ascii_to_basic_latin(src8, d16);
            }
            {
                let d8 = dstmap.tail::<u8>(g.cap, 0xA5);
                let _ = convert_latin1_to_utf8_partial(src8, d8);
            }
            {
                let d8 = dstmap.tail::<u8>(n * 2, 0xA5);
                let _ = convert_latin1_to_utf8(src8, d8);
            }
            {
                let d8 = dstmap.tail::<u8>(n, 0xA5);
                let _ = copy_ascii_to_ascii(src8, d8);
            }
            let _ = decode_latin1(src8);
            let units: Vec<u16> = g.data.chunks(2).map(|c| if c.len() == 2 { (c[1] as u16) << 8 | c[0] as u16 } else { c[0] as u16 }).collect();
            let src16 = srcmap.tail::<u16>(units.len(), 0);
            src16.copy_from_slice(&units);
            let m = units.len();
            let _ = utf16_valid_up_to(src16);
            let _ = is_basic_latin(src16);
            let _ = is_utf16_latin1(src16);
            let _ = is_utf16_bidi(src16);
            let _ = check_utf16_for_latin1_and_bidi(src16);
            {
                let d8 = dstmap.tail::<u8>(g.cap, 0xA5);
                let _ = convert_utf16_to_utf8_partial(src16, d8);
            }
            {
                let d8 = dstmap.tail::<u8>(m * 3, 0xA5);
                let _ = convert_utf16_to_utf8(src16, d8);
            }
            {
                let d8 = dstmap.tail::<u8>(m, 0xA5);
                let _ = copy_basic_latin_to_ascii(src16, d8);
            }
            ensure_utf16_validity(src16);
        }
    }
}

/// child: run cases from `from`; before each case the index is written to the progress file
pub fn child(seed: u64, thorough: bool, from: usize, progress: &str, outdir: &str) {
    let mut srcmap = GuardMap::new(4);
    let mut dstmap = GuardMap::new(32);
    let open = |name: &str, i: usize| std::fs::OpenOptions::new().create(true).append(true).open(format!("{}/{}_{:03}.ndjson", outdir, name, i)).unwrap();
    let mut fdecs: Vec<std::fs::File> = (0..NSHARDS).map(|i| open("guard-dec", i)).collect();
    let mut fencs: Vec<std::fs::File> = (0..NSHARDS).map(|i| open("guard-enc", i)).collect();
    let mut out = String::new();
    let mut k = from;
    while let Some(g) = case(seed, k, thorough) {
        std::fs::write(progress, format!("{}", k)).unwrap();
        let fdec = &mut fdecs[(k / 3) % NSHARDS];
        let fenc = &mut fencs[(k / 3) % NSHARDS];
        let r = std::panic::catch_unwind(std::panic::AssertUnwindSafe(|| run_case(&g, &mut srcmap, &mut dstmap, &mut out)));
        // long inputs are run for the guard pages only (judging a 4 KB call costs TLC seconds); their results are
        // not logged - the same functions are judged on inputs up to 160 units elsewhere
        if g.data.len() > 300 {
            out.clear();
        }
        let text = out.replace("\"h\":0", &format!("\"h\":{}", k + 1));
        if r.is_err() {
            // a panic inside a guard case: record it as a panic result of a zero-length call
            let line = match g.kind {
                0 if !text.is_empty() => format!("{}{{\"ev\":\"D\",\"src\":[],\"cap\":{},\"last\":true,\"res\":\"P\",\"ml\":0,\"ma\":0,\"read\":0,\"written\":0,\"out\":[],\"had\":false,\"enc\":\"\",\"q\":false,\"guard\":true,\"alt\":[]}}\n", text, g.cap.max(4)),
                1 if !text.is_empty() => format!("{}{{\"ev\":\"E\",\"src\":[],\"cap\":{},\"last\":true,\"res\":\"P\",\"um\":0,\"read\":0,\"written\":0,\"out\":[],\"had\":false,\"pending\":false,\"q\":false,\"guard\":true,\"alt\":[]}}\n", text, g.cap.max(14)),
                0 => format!("{{\"ev\":\"N\",\"h\":{},\"enc\":\"UTF-8\",\"mode\":\"off\",\"sink\":\"utf8\",\"repl\":false,\"bound\":false}}\n{{\"ev\":\"G\",\"h\":{},\"what\":\"panic in a long decode case (guard case {})\"}}\n", k + 1, k + 1, k),
                _ => format!("{{\"ev\":\"NE\",\"h\":{},\"enc\":\"UTF-8\",\"source\":\"utf16\",\"sink\":\"slice\",\"repl\":false,\"bound\":false}}\n{{\"ev\":\"G\",\"h\":{},\"what\":\"panic in an encode / mem / validator call with valid arguments (guard case {})\"}}\n", k + 1, k + 1, k),
            };
            if g.kind == 0 {
                fdec.write_all(line.as_bytes()).unwrap();
            } else {
                fenc.write_all(line.as_bytes()).unwrap();
            }
        } else if g.kind == 0 {
            fdec.write_all(text.as_bytes()).unwrap();
        } else if g.kind == 1 {
            fenc.write_all(text.as_bytes()).unwrap();
        }
        k += 1;
    }
    std::fs::write(progress, format!("done {}", k)).unwrap();
}

/// parent: spawn children until all cases are done; a child that dies marks its current case as a fault
pub fn parent(seed: u64, thorough: bool, outdir: &str) {
    std::fs::create_dir_all(outdir).unwrap();
    let progress = format!("{}/progress", outdir);
    let exe = std::env::current_exe().unwrap();
    let mut from = 0usize;
    let mut faults = 0usize;
    for i in 0..NSHARDS {
        std::fs::write(format!("{}/guard-dec_{:03}.ndjson", outdir, i), "").unwrap();
        std::fs::write(format!("{}/guard-enc_{:03}.ndjson", outdir, i), "").unwrap();
    }
    loop {
        let st = std::process::Command::new(&exe)
            .args(["guard-child", "--out", outdir, "--seed", &seed.to_string(), "--tier", if thorough { "thorough" } else { "quick" }, "--from", &from.to_string()])
            .status()
            .unwrap();
        let p = std::fs::read_to_string(&progress).unwrap_or_default();
        if st.success() && p.starts_with("done") {
            from = p[4..].trim().parse().unwrap_or(from);
            break;
        }
        let k: usize = p.trim().parse().unwrap_or(from);
        faults += 1;
        let g = case(seed, k, thorough);
        let (file, line) = match g.map(|g| g.kind).unwrap_or(2) {
            0 => (format!("guard-dec_{:03}.ndjson", (k / 3) % NSHARDS), format!("{{\"ev\":\"N\",\"h\":{},\"enc\":\"UTF-8\",\"mode\":\"off\",\"sink\":\"utf8\",\"repl\":false,\"bound\":false}}\n{{\"ev\":\"G\",\"h\":{},\"what\":\"child died (signal) in guard case {}: access beyond a caller buffer\"}}\n", k + 1, k + 1, k)),
            _ => (format!("guard-enc_{:03}.ndjson", (k / 3) % NSHARDS), format!("{{\"ev\":\"NE\",\"h\":{},\"enc\":\"UTF-8\",\"source\":\"utf16\",\"sink\":\"slice\",\"repl\":false,\"bound\":false}}\n{{\"ev\":\"G\",\"h\":{},\"what\":\"child died (signal) in guard case {}: access beyond a caller buffer\"}}\n", k + 1, k + 1, k)),
        };
        let mut f = std::fs::OpenOptions::new().append(true).open(format!("{}/{}", outdir, file)).unwrap();
        f.write_all(line.as_bytes()).unwrap();
        from = k + 1;
        if faults > 200 {
            break;
        }
    }
    println!("{{\"profile\":\"guard\",\"histories\":{},\"events\":{},\"faults\":{}}}", from, from, faults);
}
