// Drivers for encoding_rs::mem and the Encoding validators (C14, C15, C16; str parts of C05; guards of C06).
// Inputs are recipes (fill pattern, length, patches) that the TLA+ spec expands by the same rule.
use crate::util::*;
use crate::Ctx;
use encoding_rs::mem::*;
use encoding_rs::Encoding;
use std::borrow::Cow;
use std::fmt::Write as FmtWrite;
use std::panic::{catch_unwind, AssertUnwindSafe};

#[derive(Clone, Debug)]
pub struct Recipe {
    pub u16: bool,
    pub fill: usize,
    pub len: usize,
    pub patch: Vec<(usize, u32)>,
}

fn pattern8(k: usize) -> &'static [u8] {
    match k {
        1 => &[97],
        2 => &[195, 169],
        3 => &[226, 130, 172],
        4 => &[240, 159, 146, 169],
        5 => &[195, 191, 97],
        6 => &[194, 128],
        7 => &[215, 144, 32],
        // character widths 1 1 2 1 3 1 4 2 2 3 2 4 3 3 4 4 (cyclically every ordered pair of widths is adjacent once)
        8 => &[
            97, 97, 195, 169, 97, 226, 130, 172, 97, 240, 159, 146, 169, 195, 169, 195, 169, 226, 130, 172, 195, 169, 240, 159, 146, 169, 226, 130, 172, 226, 130, 172, 240,
            159, 146, 169, 240, 159, 146, 169,
        ],
        _ => &[65],
    }
}
fn pattern16(k: usize) -> &'static [u16] {
    match k {
        1 => &[97],
        2 => &[233],
        3 => &[8364],
        4 => &[55357, 56489],
        5 => &[255, 97],
        6 => &[128],
        7 => &[1488, 32],
        8 => &[97, 97, 233, 97, 8364, 97, 55357, 56489, 233, 233, 8364, 233, 55357, 56489, 8364, 8364, 55357, 56489, 55357, 56489],
        _ => &[65],
    }
}
impl Recipe {
    pub fn bytes(&self) -> Vec<u8> {
        let p = pattern8(self.fill);
        let mut v: Vec<u8> = (0..self.len).map(|i| p[i % p.len()]).collect();
        for &(pos, val) in self.patch.iter() {
            if pos < v.len() {
                v[pos] = val as u8;
            }
        }
        v
    }
    pub fn units(&self) -> Vec<u16> {
        let p = pattern16(self.fill);
        let mut v: Vec<u16> = (0..self.len).map(|i| p[i % p.len()]).collect();
        for &(pos, val) in self.patch.iter() {
            if pos < v.len() {
                v[pos] = val as u16;
            }
        }
        v
    }
    fn json(&self, s: &mut String) {
        let _ = write!(s, "{{\"kind\":\"{}\",\"fill\":{},\"len\":{},\"patch\":[", if self.u16 { "u16" } else { "u8" }, self.fill, self.len);
        // a later patch of the same position wins in the harness; emit only the winning one
        let mut seen: Vec<usize> = Vec::new();
        let mut first = true;
        for &(pos, val) in self.patch.iter().rev() {
            if pos >= self.len || seen.contains(&pos) {
                continue;
            }
            seen.push(pos);
            if !first {
                s.push(',');
            }
            first = false;
            let _ = write!(s, "[{},{}]", pos, val);
        }
        s.push_str("]}");
    }
}

/// buffer holding `data` at a chosen start alignment (address mod 16 == align for u8, mod 16 == 2*(align%8) for u16)
/// with canary bands around it
struct Aligned<T: Copy + PartialEq> {
    buf: Vec<T>,
    start: usize,
    len: usize,
    canary: T,
}
impl<T: Copy + PartialEq> Aligned<T> {
    fn new(data: &[T], align: usize, canary: T) -> Aligned<T> {
        let sz = std::mem::size_of::<T>();
        let mut buf = vec![canary; data.len() + 2 * BAND + 32];
        let base = buf.as_ptr() as usize;
        // first index >= BAND whose address is 16-aligned
        let mut start = BAND;
        while (base + start * sz) % 16 != 0 {
            start += 1;
        }
        start += if sz == 1 { align % 16 } else { align % 8 };
        buf[start..start + data.len()].copy_from_slice(data);
        Aligned { buf, start, len: data.len(), canary }
    }
    fn slice(&self) -> &[T] {
        &self.buf[self.start..self.start + self.len]
    }
    fn slice_mut(&mut self) -> &mut [T] {
        let (s, l) = (self.start, self.len);
        &mut self.buf[s..s + l]
    }
    fn intact(&self) -> bool {
        self.buf[..self.start].iter().all(|x| *x == self.canary) && self.buf[self.start + self.len..].iter().all(|x| *x == self.canary)
    }
}

#[derive(Clone, PartialEq, Debug, Default)]
struct MRes {
    r: Vec<i64>,
    out: Vec<u32>,
    beyond: bool,
    post: Vec<u8>,
    borrowed: bool,
    panic: bool,
    guard: bool,
}

const FILL8: u8 = 0xA5;
const FILL16: u16 = 0xA5A5;

fn b(x: bool) -> i64 {
    if x {
        1
    } else {
        0
    }
}

/// run function `f` on the input at one alignment
fn run_one(f: &str, rc: &Recipe, dl: usize, align: usize) -> MRes {
    run_one_fill(f, rc, dl, align, FILL8)
}

/// `fill8` = the byte pattern the destination holds before the call (C18: results must not depend on it)
fn run_one_fill(f: &str, rc: &Recipe, dl: usize, align: usize, fill8: u8) -> MRes {
    let fill16: u16 = (fill8 as u16) << 8 | fill8 as u16;
    let in8 = if rc.u16 { Vec::new() } else { rc.bytes() };
    let in16 = if rc.u16 { rc.units() } else { Vec::new() };
    let a8 = Aligned::new(&in8, align, 0xC9u8);
    let a16 = Aligned::new(&in16, align, 0xC9C9u16);
    let dalign = (align * 7 + 3) % 16;
    let mut res = MRes { beyond: true, guard: true, ..Default::default() };
    let r = catch_unwind(AssertUnwindSafe(|| -> MRes {
        let mut m = MRes { beyond: true, guard: true, ..Default::default() };
        let s8 = a8.slice();
        let s16 = a16.slice();
        // helpers for destinations
        let d8 = |m: &mut MRes, call: &mut dyn FnMut(&mut [u8]) -> (Vec<i64>, usize), text: bool| {
            let init: Vec<u8> = if text { filler(dl, 1 + (align % 4), align % 3).into_bytes() } else { vec![fill8; dl] };
            let mut d = Aligned::new(&init, dalign, 0xC9u8);
            let (r, written) = call(d.slice_mut());
            m.r = r;
            let w = written.min(dl);
            m.out = d.slice()[..w].iter().map(|x| *x as u32).collect();
            m.beyond = d.slice()[w..] == init[w..];
            if text {
                m.post = d.slice().to_vec();
            }
            m.guard = d.intact();
        };
        let d16 = |m: &mut MRes, call: &mut dyn FnMut(&mut [u16]) -> (Vec<i64>, usize)| {
            let init: Vec<u16> = vec![fill16; dl];
            let mut d = Aligned::new(&init, dalign, 0xC9C9u16);
            let (r, written) = call(d.slice_mut());
            m.r = r;
            let w = written.min(dl);
            m.out = d.slice()[..w].iter().map(|x| *x as u32).collect();
            m.beyond = d.slice()[w..] == init[w..];
            m.guard = d.intact();
        };
        fn as_str(x: &[u8]) -> &str {
            std::str::from_utf8(x).expect("recipe must be valid UTF-8 for str functions")
        }
        match f {
            "utf8_valid_up_to" => m.r = vec![Encoding::utf8_valid_up_to(s8) as i64],
            "ascii_valid_up_to" => m.r = vec![Encoding::ascii_valid_up_to(s8) as i64],
            "iso_2022_jp_ascii_valid_up_to" => m.r = vec![Encoding::iso_2022_jp_ascii_valid_up_to(s8) as i64],
            "utf16_valid_up_to" => m.r = vec![utf16_valid_up_to(s16) as i64],
            "utf8_latin1_up_to" => m.r = vec![utf8_latin1_up_to(s8) as i64],
            "str_latin1_up_to" => m.r = vec![str_latin1_up_to(as_str(s8)) as i64],
            "is_ascii" => m.r = vec![b(is_ascii(s8))],
            "is_basic_latin" => m.r = vec![b(is_basic_latin(s16))],
            "is_utf8_latin1" => m.r = vec![b(is_utf8_latin1(s8))],
            "is_str_latin1" => m.r = vec![b(is_str_latin1(as_str(s8)))],
            "is_utf16_latin1" => m.r = vec![b(is_utf16_latin1(s16))],
            "is_utf8_bidi" => m.r = vec![b(is_utf8_bidi(s8))],
            "is_str_bidi" => m.r = vec![b(is_str_bidi(as_str(s8)))],
            "is_utf16_bidi" => m.r = vec![b(is_utf16_bidi(s16))],
            "check_utf8_for_latin1_and_bidi" => m.r = vec![lb(check_utf8_for_latin1_and_bidi(s8))],
            "check_str_for_latin1_and_bidi" => m.r = vec![lb(check_str_for_latin1_and_bidi(as_str(s8)))],
            "check_utf16_for_latin1_and_bidi" => m.r = vec![lb(check_utf16_for_latin1_and_bidi(s16))],
            "convert_utf8_to_utf16" => d16(&mut m, &mut |d| {
                let w = convert_utf8_to_utf16(s8, d);
                (vec![w as i64], w)
            }),
            "convert_str_to_utf16" => d16(&mut m, &mut |d| {
                let w = convert_str_to_utf16(as_str(s8), d);
                (vec![w as i64], w)
            }),
            "convert_utf8_to_utf16_without_replacement" => d16(&mut m, &mut |d| match convert_utf8_to_utf16_without_replacement(s8, d) {
                Some(w) => (vec![w as i64], w),
                None => (vec![-1], 0),
            }),
            "convert_utf16_to_utf8_partial" => d8(
                &mut m,
                &mut |d| {
                    let (rd, w) = convert_utf16_to_utf8_partial(s16, d);
                    (vec![rd as i64, w as i64], w)
                },
                false,
            ),
            "convert_utf16_to_utf8" => d8(
                &mut m,
                &mut |d| {
                    let w = convert_utf16_to_utf8(s16, d);
                    (vec![w as i64], w)
                },
                false,
            ),
            "convert_utf16_to_str_partial" => d8(
                &mut m,
                &mut |d| {
                    let (rd, w) = convert_utf16_to_str_partial(s16, std::str::from_utf8_mut(d).unwrap());
                    (vec![rd as i64, w as i64], w)
                },
                true,
            ),
            "convert_utf16_to_str" => d8(
                &mut m,
                &mut |d| {
                    let w = convert_utf16_to_str(s16, std::str::from_utf8_mut(d).unwrap());
                    (vec![w as i64], w)
                },
                true,
            ),
            "convert_latin1_to_utf16" => d16(&mut m, &mut |d| {
                convert_latin1_to_utf16(s8, d);
                (vec![], s8.len())
            }),
            "convert_latin1_to_utf8_partial" => d8(
                &mut m,
                &mut |d| {
                    let (rd, w) = convert_latin1_to_utf8_partial(s8, d);
                    (vec![rd as i64, w as i64], w)
                },
                false,
            ),
            "convert_latin1_to_utf8" => d8(
                &mut m,
                &mut |d| {
                    let w = convert_latin1_to_utf8(s8, d);
                    (vec![w as i64], w)
                },
                false,
            ),
            "convert_latin1_to_str_partial" => d8(
                &mut m,
                &mut |d| {
                    let (rd, w) = convert_latin1_to_str_partial(s8, std::str::from_utf8_mut(d).unwrap());
                    (vec![rd as i64, w as i64], w)
                },
                true,
            ),
            "convert_latin1_to_str" => d8(
                &mut m,
                &mut |d| {
                    let w = convert_latin1_to_str(s8, std::str::from_utf8_mut(d).unwrap());
                    (vec![w as i64], w)
                },
                true,
            ),
            "convert_utf8_to_latin1_lossy" => d8(
                &mut m,
                &mut |d| {
                    let w = convert_utf8_to_latin1_lossy(s8, d);
                    (vec![w as i64], w)
                },
                false,
            ),
            "convert_utf16_to_latin1_lossy" => d8(
                &mut m,
                &mut |d| {
                    convert_utf16_to_latin1_lossy(s16, d);
                    (vec![], s16.len())
                },
                false,
            ),
            "decode_latin1" => {
                let c = decode_latin1(s8);
                m.borrowed = matches!(c, Cow::Borrowed(_));
                m.r = vec![c.len() as i64];
                m.out = c.as_bytes().iter().map(|x| *x as u32).collect();
            }
            "encode_latin1_lossy" => {
                let c = encode_latin1_lossy(as_str(s8));
                m.borrowed = matches!(c, Cow::Borrowed(_));
                m.r = vec![c.len() as i64];
                m.out = c.iter().map(|x| *x as u32).collect();
            }
            "ensure_utf16_validity" => {
                let mut d = Aligned::new(s16, dalign, 0xC9C9u16);
                ensure_utf16_validity(d.slice_mut());
                m.out = d.slice().iter().map(|x| *x as u32).collect();
                m.guard = d.intact();
            }
            "copy_ascii_to_ascii" => d8(
                &mut m,
                &mut |d| {
                    let w = copy_ascii_to_ascii(s8, d);
                    (vec![w as i64], w)
                },
                false,
            ),
            "copy_ascii_to_basic_latin" => d16(&mut m, &mut |d| {
                let w = copy_ascii_to_basic_latin(s8, d);
                (vec![w as i64], w)
            }),
            "copy_basic_latin_to_ascii" => d8(
                &mut m,
                &mut |d| {
                    let w = copy_basic_latin_to_ascii(s16, d);
                    (vec![w as i64], w)
                },
                false,
            ),
            _ => panic!("unknown function {}", f),
        }
        m
    }));
    match r {
        Ok(m) => res = m,
        Err(_) => res.panic = true,
    }
    res.guard = res.guard && a8.intact() && a16.intact();
    res
}

fn lb(x: Latin1Bidi) -> i64 {
    match x {
        Latin1Bidi::Latin1 => 0,
        Latin1Bidi::LeftToRight => 1,
        Latin1Bidi::Bidi => 2,
    }
}

fn emit(cx: &mut Ctx, f: &str, rc: &Recipe, dl: i64) {
    if thinned() {
        return;
    }
    let naligns = if rc.u16 { 8 } else { 16 };
    let d = if dl < 0 { 0 } else { dl as usize };
    let base = run_one(f, rc, d, 0);
    let mut alt: Vec<MRes> = Vec::new();
    let mut guard = base.guard;
    for a in 1..naligns {
        let x = run_one(f, rc, d, a);
        guard = guard && x.guard;
        // post (whole str destination) depends on the alignment-specific filler: compare the logical parts only
        // (str destinations are pre-filled with alignment-specific text and may legitimately be rewritten beyond `written`)
        let same = x.r == base.r && x.out == base.out && x.panic == base.panic && x.borrowed == base.borrowed && (f.contains("_to_str") || x.beyond == base.beyond);
        if !same && !alt.iter().any(|y| y.r == x.r && y.out == x.out) {
            alt.push(x);
        }
    }
    // C18: the same call with the destination pre-filled 0x00 and 0xFF
    let mut fillalt: Vec<MRes> = Vec::new();
    if dl >= 0 && !f.contains("_to_str") {
        for fb in [0x00u8, 0xFF] {
            let x = run_one_fill(f, rc, d, 0, fb);
            if !(x.r == base.r && x.out == base.out && x.panic == base.panic) {
                fillalt.push(x);
            }
        }
    }
    let h = cx.sh.begin();
    let mut s = String::new();
    let _ = write!(s, "{{\"ev\":\"M\",\"h\":{},\"fn\":\"{}\",\"in\":", h, f);
    rc.json(&mut s);
    let _ = write!(s, ",\"dl\":{},\"r\":[", dl);
    for (i, x) in base.r.iter().enumerate() {
        if i > 0 {
            s.push(',');
        }
        let _ = write!(s, "{}", x);
    }
    s.push_str("],\"out\":");
    js_u32(&mut s, &base.out);
    let _ = write!(s, ",\"beyond\":{},\"post\":", base.beyond);
    js_u8(&mut s, &base.post);
    let _ = write!(s, ",\"borrowed\":{},\"panic\":{},\"guard\":{},\"alt\":[", base.borrowed, base.panic, guard);
    for (i, a) in alt.iter().enumerate() {
        if i > 0 {
            s.push(',');
        }
        s.push('[');
        for (j, x) in a.r.iter().enumerate() {
            if j > 0 {
                s.push(',');
            }
            let _ = write!(s, "{}", x);
        }
        s.push(']');
    }
    let _ = write!(s, "],\"fillalt\":{}}}", fillalt.len());
    cx.sh.line(&s);
}

pub const UTF8_FNS: [&str; 8] = [
    "utf8_valid_up_to", "utf8_latin1_up_to", "is_utf8_latin1", "is_utf8_bidi", "check_utf8_for_latin1_and_bidi", "convert_utf8_to_utf16",
    "convert_utf8_to_utf16_without_replacement", "is_ascii",
];
pub const STR_FNS: [&str; 5] = ["str_latin1_up_to", "is_str_latin1", "is_str_bidi", "check_str_for_latin1_and_bidi", "convert_str_to_utf16"];
pub const LATIN1STR_FNS: [&str; 2] = ["encode_latin1_lossy", "convert_utf8_to_latin1_lossy"];
pub const UTF16_FNS: [&str; 10] = [
    "utf16_valid_up_to", "is_basic_latin", "is_utf16_latin1", "is_utf16_bidi", "check_utf16_for_latin1_and_bidi", "convert_utf16_to_utf8",
    "convert_utf16_to_str", "ensure_utf16_validity", "copy_basic_latin_to_ascii", "convert_utf16_to_utf8_partial",
];
pub const BYTE_FNS: [&str; 9] = [
    "ascii_valid_up_to", "iso_2022_jp_ascii_valid_up_to", "convert_latin1_to_utf16", "convert_latin1_to_utf8", "convert_latin1_to_str", "decode_latin1",
    "copy_ascii_to_ascii", "copy_ascii_to_basic_latin", "convert_latin1_to_utf8_partial",
];

fn dl_for(f: &str, len: usize) -> i64 {
    match f {
        "convert_utf8_to_utf16" | "convert_str_to_utf16" => (len + 1) as i64,
        "convert_utf8_to_utf16_without_replacement" => len as i64,
        "convert_utf16_to_utf8" | "convert_utf16_to_str" => (len * 3) as i64,
        "convert_latin1_to_utf16" | "convert_utf8_to_latin1_lossy" | "convert_utf16_to_latin1_lossy" | "copy_ascii_to_ascii" | "copy_ascii_to_basic_latin" | "copy_basic_latin_to_ascii" => len as i64,
        "convert_latin1_to_utf8" | "convert_latin1_to_str" => (len * 2) as i64,
        _ => -1,
    }
}

fn lens(thorough: bool) -> Vec<usize> {
    if thorough {
        (0..=160).collect()
    } else {
        let mut v: Vec<usize> = (0..=34).collect();
        v.extend_from_slice(&[47, 48, 49, 63, 64, 65, 66, 79, 80, 81, 95, 96, 97, 127, 128, 129, 130, 159, 160]);
        v
    }
}

fn positions(len: usize, thorough: bool) -> Vec<usize> {
    if len == 0 {
        return vec![];
    }
    if thorough || len <= 20 {
        return (0..len).collect();
    }
    let mut v: Vec<usize> = Vec::new();
    for p in 0..len {
        let m = p % 16;
        if m == 0 || m == 1 || m == 15 || p + 4 >= len || p == len / 2 || p < 3 {
            v.push(p);
        }
    }
    v
}

const DEFECTS8: [&[u8]; 26] = [
    &[0x80], &[0xBF], &[0xC0], &[0xC1], &[0xC2], &[0xE0], &[0xED], &[0xF0], &[0xF4], &[0xF5], &[0xFF], &[0xE0, 0x9F], &[0xED, 0xA0], &[0xF0, 0x8F], &[0xF4, 0x90],
    &[0xC4, 0x80], &[0xC3, 0xBF], &[0xD7, 0x90], &[0xE2, 0x80, 0x8F], &[0xE2, 0x80], &[0xF0, 0x9F, 0x92], &[0xEF, 0xBB, 0xBF], &[0xEF, 0xBF, 0xBD], &[0x1B], &[0x0E],
    &[0x7F],
];
const DEFECTS16: [&[u16]; 16] = [
    &[0xD800], &[0xDC00], &[0xDBFF], &[0xDFFF], &[0xDC00, 0xD800], &[0xD83D, 0xDCA9], &[0x5D0], &[0xFF], &[0x100], &[0x80], &[0xD802], &[0x200F], &[0xFEFF],
    &[0xD83A, 0xDC00], &[0xFB1D], &[0x7F],
];

pub fn mem(cx: &mut Ctx, which: &str) {
    let ls = lens(cx.thorough);
    let mut k = 0usize;
    let seed = cx.seed as usize;
    let want = |f: &str| -> bool {
        match which {
            "c14" => matches!(f, "utf8_valid_up_to" | "ascii_valid_up_to" | "iso_2022_jp_ascii_valid_up_to" | "utf16_valid_up_to" | "utf8_latin1_up_to" | "str_latin1_up_to"),
            "c16" => f.starts_with("is_") || f.starts_with("check_"),
            "c15" => f.starts_with("convert_") || f.starts_with("copy_") || f.starts_with("ensure_") || f == "decode_latin1" || f == "encode_latin1_lossy",
            "c05" => f.contains("_to_str"),
            _ => true,
        }
    };
    // UTF-8-ish inputs: clean fills and one defect at structured positions, two defects seeded
    for &len in ls.iter() {
        for fill in 1..=8usize {
            let clean = Recipe { u16: false, fill, len, patch: vec![] };
            let valid = std::str::from_utf8(&clean.bytes()).is_ok();
            for f in UTF8_FNS.iter().filter(|f| want(f)) {
                emit(cx, f, &clean, dl_for(f, len));
            }
            if valid {
                for f in STR_FNS.iter().filter(|f| want(f)) {
                    emit(cx, f, &clean, dl_for(f, len));
                }
                if matches!(fill, 1 | 2 | 5 | 6) {
                    for f in LATIN1STR_FNS.iter().filter(|f| want(f)) {
                        emit(cx, f, &clean, dl_for(f, len));
                    }
                }
            }
            for p in positions(len, cx.thorough) {
                k += 1;
                // rotate defects so that every (len, pos) meets several and every defect meets every stride phase
                let nd = if cx.thorough { 6 } else { 2 };
                for j in 0..nd {
                    let d = DEFECTS8[(k * 7 + j * 11 + seed + fill) % DEFECTS8.len()];
                    let mut rc = clean.clone();
                    for (i, &x) in d.iter().enumerate() {
                        rc.patch.push((p + i, x as u32));
                    }
                    let f = UTF8_FNS[(k + j) % UTF8_FNS.len()];
                    if want(f) {
                        emit(cx, f, &rc, dl_for(f, len));
                    }
                    let f2 = UTF8_FNS[(k + j + 3) % UTF8_FNS.len()];
                    if want(f2) && f2 != f {
                        emit(cx, f2, &rc, dl_for(f2, len));
                    }
                    let bytes = rc.bytes();
                    if let Ok(st) = std::str::from_utf8(&bytes) {
                        let f = STR_FNS[(k + j) % STR_FNS.len()];
                        if want(f) {
                            emit(cx, f, &rc, dl_for(f, len));
                        }
                        if st.chars().all(|c| (c as u32) <= 0xFF) {
                            let f = LATIN1STR_FNS[(k + j) % 2];
                            if want(f) {
                                emit(cx, f, &rc, dl_for(f, len));
                            }
                        }
                    }
                    // byte-input functions see the same recipes as raw bytes
                    let f = BYTE_FNS[(k + j) % BYTE_FNS.len()];
                    if want(f) {
                        if f == "convert_latin1_to_utf8_partial" {
                            partials(cx, f, &rc);
                        } else {
                            emit(cx, f, &rc, dl_for(f, len));
                        }
                    }
                }
                // two defects
                if k % 3 == 0 && len >= 2 {
                    let mut rc = clean.clone();
                    let p2 = cx.rng.below(len);
                    let d1 = DEFECTS8[cx.rng.below(DEFECTS8.len())];
                    let d2 = DEFECTS8[cx.rng.below(DEFECTS8.len())];
                    for (i, &x) in d1.iter().enumerate() {
                        rc.patch.push((p + i, x as u32));
                    }
                    for (i, &x) in d2.iter().enumerate() {
                        rc.patch.push((p2 + i, x as u32));
                    }
                    let f = UTF8_FNS[k % UTF8_FNS.len()];
                    if want(f) {
                        emit(cx, f, &rc, dl_for(f, len));
                    }
                }
            }
            for f in BYTE_FNS.iter().filter(|f| want(f)) {
                if *f == "convert_latin1_to_utf8_partial" {
                    partials(cx, f, &clean);
                } else {
                    emit(cx, f, &clean, dl_for(f, len));
                }
            }
            if want("convert_latin1_to_str_partial") {
                partials(cx, "convert_latin1_to_str_partial", &clean);
            }
        }
    }
    // valid endings: every concatenation of up to three characters of 1..4 bytes placed flush against the end of an
    // ASCII buffer (the scalar tails of the validators / converters are entered with every residue)
    {
        let chars: [&[u8]; 4] = [&[0x61], &[0xC3, 0xA9], &[0xE2, 0x82, 0xAC], &[0xF0, 0x9F, 0x92, 0xA9]];
        let mut seqs: Vec<Vec<u8>> = Vec::new();
        for a in 0..4 {
            seqs.push(chars[a].to_vec());
            for b2 in 0..4 {
                let mut v = chars[a].to_vec();
                v.extend_from_slice(chars[b2]);
                seqs.push(v.clone());
                for c in 0..4 {
                    let mut w = v.clone();
                    w.extend_from_slice(chars[c]);
                    seqs.push(w);
                }
            }
        }
        let mut kk = 0usize;
        for &len in ls.iter() {
            for sq in seqs.iter() {
                if sq.len() > len {
                    continue;
                }
                kk += 1;
                for fill in [1usize, 2] {
                    let mut rc = Recipe { u16: false, fill, len, patch: vec![] };
                    // fill 2 (two-byte characters) must be re-aligned so that the patch starts on a character boundary
                    if fill == 2 && (len - sq.len()) % 2 != 0 {
                        continue;
                    }
                    for (i, &x) in sq.iter().enumerate() {
                        rc.patch.push((len - sq.len() + i, x as u32));
                    }
                    for j in 0..2 {
                        let f = UTF8_FNS[(kk + j * 3 + fill) % UTF8_FNS.len()];
                        if want(f) {
                            emit(cx, f, &rc, dl_for(f, len));
                        }
                        let f = STR_FNS[(kk + j + fill) % STR_FNS.len()];
                        if want(f) {
                            emit(cx, f, &rc, dl_for(f, len));
                        }
                    }
                }
            }
        }
    }
    // UTF-16 inputs
    for &len in ls.iter() {
        for fill in 1..=8usize {
            let clean = Recipe { u16: true, fill, len, patch: vec![] };
            for f in UTF16_FNS.iter().filter(|f| want(f)) {
                if *f == "convert_utf16_to_utf8_partial" {
                    partials(cx, f, &clean);
                } else {
                    emit(cx, f, &clean, dl_for(f, len));
                }
            }
            if want("convert_utf16_to_str_partial") {
                partials(cx, "convert_utf16_to_str_partial", &clean);
            }
            if matches!(fill, 1 | 2 | 5 | 6) && want("convert_utf16_to_latin1_lossy") {
                emit(cx, "convert_utf16_to_latin1_lossy", &clean, len as i64);
            }
            for p in positions(len, cx.thorough) {
                k += 1;
                let nd = if cx.thorough { 5 } else { 2 };
                for j in 0..nd {
                    let d = DEFECTS16[(k * 5 + j * 7 + seed + fill) % DEFECTS16.len()];
                    let mut rc = clean.clone();
                    for (i, &x) in d.iter().enumerate() {
                        rc.patch.push((p + i, x as u32));
                    }
                    let f = UTF16_FNS[(k + j) % UTF16_FNS.len()];
                    if want(f) {
                        if f == "convert_utf16_to_utf8_partial" {
                            partials(cx, f, &rc);
                        } else {
                            emit(cx, f, &rc, dl_for(f, len));
                        }
                    }
                    let f2 = UTF16_FNS[(k + j + 4) % UTF16_FNS.len()];
                    if want(f2) && f2 != f && f2 != "convert_utf16_to_utf8_partial" {
                        emit(cx, f2, &rc, dl_for(f2, len));
                    }
                    if (k + j) % 4 == 0 && want("convert_utf16_to_str_partial") {
                        partials(cx, "convert_utf16_to_str_partial", &rc);
                    }
                    if rc.units().iter().all(|u| *u <= 0xFF) && want("convert_utf16_to_latin1_lossy") {
                        emit(cx, "convert_utf16_to_latin1_lossy", &rc, len as i64);
                    }
                }
            }
        }
    }
    // lane sweep: one primary defect at EVERY position of buffers that span one to five 16-unit strides (+ a tail), for the
    // validators and classifiers (not the conversions): unrolled stride kernels are checked lane by lane
    for &len in [16usize, 17, 32, 35, 48, 64, 67, 80].iter() {
        for fill in 1..=8usize {
            for p in 0..len {
                for (di, d) in [&[0x80u8][..], &[0xFF], &[0xC0, 0x80], &[0xE0, 0x80], &[0xD7, 0x90], &[0xC4, 0x80]].iter().enumerate() {
                    if !cx.thorough && (p + di + fill + seed) % 2 != 0 {
                        continue;
                    }
                    let mut rc = Recipe { u16: false, fill, len, patch: vec![] };
                    for (i, &x) in d.iter().enumerate() {
                        rc.patch.push((p + i, x as u32));
                    }
                    for f in UTF8_FNS.iter().chain(BYTE_FNS.iter()).filter(|f| want(f) && !f.starts_with("convert_") && !f.starts_with("copy_") && **f != "decode_latin1") {
                        emit(cx, f, &rc, dl_for(f, len));
                    }
                }
                for (di, d) in [&[0xD800u16][..], &[0xDC00], &[0xDBFF], &[0x5D0], &[0x100]].iter().enumerate() {
                    if !cx.thorough && (p + di + fill + seed) % 2 != 0 {
                        continue;
                    }
                    let mut rc = Recipe { u16: true, fill, len, patch: vec![] };
                    for (i, &x) in d.iter().enumerate() {
                        rc.patch.push((p + i, x as u32));
                    }
                    for f in UTF16_FNS.iter().filter(|f| want(f) && !f.starts_with("convert_") && !f.starts_with("ensure_") && !f.starts_with("copy_")) {
                        emit(cx, f, &rc, dl_for(f, len));
                    }
                }
            }
        }
    }
    // per-character predicates, exhaustive
    if which == "c16" || which == "all" {
        ranges(cx);
    }
}

/// partial conversions: destination lengths from 0 to the sufficient size
fn partials(cx: &mut Ctx, f: &str, rc: &Recipe) {
    let full = if rc.u16 { rc.len * 3 } else { rc.len * 2 };
    let mut dls: Vec<usize> = vec![0, 1, 2, 3, 4, 5, 7, 8, 15, 16, 17, full, full + 1];
    if full >= 3 {
        dls.extend_from_slice(&[full - 1, full - 2, full - 3]);
    }
    for _ in 0..if cx.thorough { 6 } else { 2 } {
        dls.push(cx.rng.below(full + 2));
    }
    dls.sort();
    dls.dedup();
    for d in dls {
        if d <= full + 1 {
            emit(cx, f, rc, d as i64);
        }
    }
}

fn ranges(cx: &mut Ctx) {
    // is_char_bidi over all scalar values, in chunks; is_utf16_code_unit_bidi over all code units
    let mut chunk = |cx: &mut Ctx, name: &str, lo: u32, hi: u32, pred: &dyn Fn(u32) -> bool| {
        let mut rs: Vec<(u32, u32)> = Vec::new();
        let mut c = lo;
        while c <= hi {
            if pred(c) {
                let start = c;
                while c + 1 <= hi && pred(c + 1) {
                    c += 1;
                }
                rs.push((start, c));
            }
            c += 1;
        }
        let h = cx.sh.begin();
        let mut s = String::new();
        let _ = write!(s, "{{\"ev\":\"MR\",\"h\":{},\"fn\":\"{}\",\"lo\":{},\"hi\":{},\"ranges\":[", h, name, lo, hi);
        for (i, (a, b)) in rs.iter().enumerate() {
            if i > 0 {
                s.push(',');
            }
            let _ = write!(s, "[{},{}]", a, b);
        }
        s.push_str("]}");
        cx.sh.line(&s);
    };
    let mut lo = 0u32;
    while lo < 0x110000 {
        chunk(cx, "is_char_bidi", lo, lo + 0x7FFF, &|c| char::from_u32(c).map(is_char_bidi).unwrap_or(false));
        lo += 0x8000;
    }
    let mut lo = 0u32;
    while lo < 0x10000 {
        chunk(cx, "is_utf16_code_unit_bidi", lo, lo + 0x3FFF, &|c| is_utf16_code_unit_bidi(c as u16));
        lo += 0x4000;
    }
}
