// Decoder drivers: execute call histories against the real Decoder API and record one ndjson event
// per call at the call's return (also on the panic path).  No judgement happens here.
use crate::util::*;
use encoding_rs::*;
use std::fmt::Write as FmtWrite;
use std::panic::{catch_unwind, AssertUnwindSafe};

#[derive(Clone, Copy, PartialEq, Debug)]
pub enum Sink {
    Utf8,
    Utf16,
    Str,
    String_,
}
impl Sink {
    pub fn from_name(n: &str) -> Sink {
        match n {
            "utf8" => Sink::Utf8,
            "utf16" => Sink::Utf16,
            "str" => Sink::Str,
            _ => Sink::String_,
        }
    }
    pub fn name(self) -> &'static str {
        match self {
            Sink::Utf8 => "utf8",
            Sink::Utf16 => "utf16",
            Sink::Str => "str",
            Sink::String_ => "string",
        }
    }
    pub fn min_cap(self) -> usize {
        if self == Sink::Utf16 {
            2
        } else {
            4
        }
    }
}
pub const ALL_SINKS: [Sink; 4] = [Sink::Utf8, Sink::Utf16, Sink::Str, Sink::String_];

#[derive(Clone, Copy, PartialEq, Debug)]
pub enum Mode {
    Sniff,
    Remove,
    Off,
}
impl Mode {
    pub fn from_name(n: &str) -> Mode {
        match n {
            "sniff" => Mode::Sniff,
            "remove" => Mode::Remove,
            _ => Mode::Off,
        }
    }
    pub fn name(self) -> &'static str {
        match self {
            Mode::Sniff => "sniff",
            Mode::Remove => "remove",
            Mode::Off => "off",
        }
    }
}
pub const ALL_MODES: [Mode; 3] = [Mode::Sniff, Mode::Remove, Mode::Off];

pub fn new_decoder(enc: &'static Encoding, mode: Mode) -> Decoder {
    match mode {
        Mode::Sniff => enc.new_decoder(),
        Mode::Remove => enc.new_decoder_with_bom_removal(),
        Mode::Off => enc.new_decoder_without_bom_handling(),
    }
}

#[derive(Clone, PartialEq, Debug, Default)]
pub struct Obs {
    pub res: char, // I O M P
    pub ml: usize,
    pub ma: usize,
    pub read: usize,
    pub written: usize,
    pub out: Vec<u16>, // code units (bytes widened for UTF-8 sinks)
    pub had: bool,
    pub pre: Vec<u8>,
    pub post: Vec<u8>,
    pub same: bool,
    pub guard: bool,
    pub cap: usize,
}

fn coder(r: CoderResult) -> char {
    match r {
        CoderResult::InputEmpty => 'I',
        CoderResult::OutputFull => 'O',
    }
}
fn decres(r: DecoderResult) -> (char, usize, usize) {
    match r {
        DecoderResult::InputEmpty => ('I', 0, 0),
        DecoderResult::OutputFull => ('O', 0, 0),
        DecoderResult::Malformed(a, b) => ('M', a as usize, b as usize),
    }
}

/// One call on the real decoder.  `fill` is the byte pattern the destination holds before the call,
/// `unit` selects the filler character width for str/String sinks, `prelen` the prior String content.
pub fn call(dec: &mut Decoder, sink: Sink, repl: bool, src: &[u8], cap: usize, last: bool, fill: u8, unit: usize, prelen: usize) -> Obs {
    let mut o = Obs { same: true, guard: true, cap, ..Default::default() };
    match sink {
        Sink::Utf8 => {
            let mut g = Guarded::<u8>::new(cap, fill, CANARY);
            let r = catch_unwind(AssertUnwindSafe(|| {
                let dst = g.slice();
                if repl {
                    let (r, rd, wr, had) = dec.decode_to_utf8(src, dst, last);
                    (coder(r), 0, 0, rd, wr, had)
                } else {
                    let (r, rd, wr) = dec.decode_to_utf8_without_replacement(src, dst, last);
                    let (c, a, b) = decres(r);
                    (c, a, b, rd, wr, false)
                }
            }));
            o.guard = g.intact();
            match r {
                Ok((c, a, b, rd, wr, had)) => {
                    o.res = c;
                    o.ml = a;
                    o.ma = b;
                    o.read = rd;
                    o.written = wr;
                    o.had = had;
                    o.out = g.get()[..wr.min(cap)].iter().map(|x| *x as u16).collect();
                }
                Err(_) => o.res = 'P',
            }
        }
        Sink::Utf16 => {
            let fill16 = (fill as u16) << 8 | fill as u16;
            let mut g = Guarded::<u16>::new(cap, fill16, 0xC9C9);
            let r = catch_unwind(AssertUnwindSafe(|| {
                let dst = g.slice();
                if repl {
                    let (r, rd, wr, had) = dec.decode_to_utf16(src, dst, last);
                    (coder(r), 0, 0, rd, wr, had)
                } else {
                    let (r, rd, wr) = dec.decode_to_utf16_without_replacement(src, dst, last);
                    let (c, a, b) = decres(r);
                    (c, a, b, rd, wr, false)
                }
            }));
            o.guard = g.intact();
            match r {
                Ok((c, a, b, rd, wr, had)) => {
                    o.res = c;
                    o.ml = a;
                    o.ma = b;
                    o.read = rd;
                    o.written = wr;
                    o.had = had;
                    o.out = g.get()[..wr.min(cap)].to_vec();
                }
                Err(_) => o.res = 'P',
            }
        }
        Sink::Str => {
            let mut g = Guarded::<u8>::new(cap, 0, CANARY);
            let text = filler(cap, unit, fill as usize % 4);
            g.slice().copy_from_slice(text.as_bytes());
            let r = catch_unwind(AssertUnwindSafe(|| {
                let dst = std::str::from_utf8_mut(g.slice()).unwrap();
                if repl {
                    let (r, rd, wr, had) = dec.decode_to_str(src, dst, last);
                    (coder(r), 0, 0, rd, wr, had)
                } else {
                    let (r, rd, wr) = dec.decode_to_str_without_replacement(src, dst, last);
                    let (c, a, b) = decres(r);
                    (c, a, b, rd, wr, false)
                }
            }));
            o.guard = g.intact();
            o.post = g.get().to_vec();
            match r {
                Ok((c, a, b, rd, wr, had)) => {
                    o.res = c;
                    o.ml = a;
                    o.ma = b;
                    o.read = rd;
                    o.written = wr;
                    o.had = had;
                    o.out = g.get()[..wr.min(cap)].iter().map(|x| *x as u16).collect();
                }
                Err(_) => o.res = 'P',
            }
        }
        Sink::String_ => {
            let mut s = String::with_capacity(prelen + cap);
            s.push_str(&filler(prelen, unit, 0));
            let real_cap = s.capacity() - s.len();
            o.cap = real_cap;
            // poison the spare capacity (confined to the harness; the bytes stay logically uninitialised)
            unsafe {
                let v = s.as_mut_vec();
                let p = v.as_mut_ptr().add(v.len());
                std::ptr::write_bytes(p, fill, real_cap);
            }
            o.pre = s.as_bytes().to_vec();
            let ptr = s.as_ptr();
            let capacity = s.capacity();
            let r = catch_unwind(AssertUnwindSafe(|| {
                if repl {
                    let (r, rd, had) = dec.decode_to_string(src, &mut s, last);
                    (coder(r), 0, 0, rd, had)
                } else {
                    let (r, rd) = dec.decode_to_string_without_replacement(src, &mut s, last);
                    let (c, a, b) = decres(r);
                    (c, a, b, rd, false)
                }
            }));
            o.same = s.as_ptr() == ptr && s.capacity() == capacity;
            o.post = s.as_bytes().to_vec();
            match r {
                Ok((c, a, b, rd, had)) => {
                    o.res = c;
                    o.ml = a;
                    o.ma = b;
                    o.read = rd;
                    o.written = s.len().saturating_sub(prelen);
                    o.had = had;
                    o.out = s.as_bytes()[prelen.min(s.len())..].iter().map(|x| *x as u16).collect();
                }
                Err(_) => o.res = 'P',
            }
        }
    }
    o
}

/// The documented manual error-recovery procedure (C09): the caller's own loop over the without-replacement method,
/// appending one U+FFFD per Malformed result and re-pushing the rest, on the same (src, capacity, last).
/// res 'X' = the procedure had no room left for the U+FFFD it has to append.
pub fn call_manual(dec: &mut Decoder, sink: Sink, src: &[u8], cap: usize, last: bool) -> Obs {
    let mut o = Obs { same: true, guard: true, cap, ..Default::default() };
    let repl_units: &[u16] = if sink == Sink::Utf16 { &[0xFFFD] } else { &[0xEF, 0xBF, 0xBD] };
    loop {
        let c = call(dec, sink, false, &src[o.read.min(src.len())..], cap - o.written, last, 0x5A, 3, 0);
        o.guard &= c.guard;
        if c.res == 'P' {
            o.res = 'P';
            return o;
        }
        o.read += c.read;
        o.written += c.written;
        o.out.extend_from_slice(&c.out);
        match c.res {
            'M' => {
                o.had = true;
                if cap - o.written < repl_units.len() {
                    o.res = 'X';
                    return o;
                }
                o.out.extend_from_slice(repl_units);
                o.written += repl_units.len();
            }
            r => {
                o.res = r;
                return o;
            }
        }
    }
}

pub fn query(dec: &Decoder, sink: Sink, repl: bool, n: usize) -> Option<usize> {
    let r = catch_unwind(AssertUnwindSafe(|| match sink {
        Sink::Utf16 => dec.max_utf16_buffer_length(n),
        _ => {
            if repl {
                dec.max_utf8_buffer_length(n)
            } else {
                dec.max_utf8_buffer_length_without_replacement(n)
            }
        }
    }));
    r.unwrap_or(None)
}

#[derive(Clone, Copy, Debug)]
pub enum CapSpec {
    Fixed(usize),
    Query(usize), // queried value + extra
}

#[derive(Clone)]
pub struct HistCfg {
    pub enc: &'static Encoding,
    pub mode: Mode,
    pub sink: Sink,
    pub repl: bool,
    pub twins: bool,   // run two more decoders with other destination fills (C18) - they get no L queries (C19)
    pub latin1: usize, // issue latin1_byte_compatible_up_to before every n-th call (0 = never)
    pub lat_src: bool, // the query is about exactly the bytes of the call (otherwise the next <= 24 bytes of the stream)
    pub unit: usize,   // filler character width for str/String sinks
    pub prelen: usize, // prior content of String sinks
}

pub struct Hist<'a> {
    pub cfg: &'a HistCfg,
    pub decs: Vec<Decoder>,
    pub man: Option<Decoder>, // twin driven by the manual procedure (--manual, replacement histories on raw sinks)
    pub pos: usize,
    pub calls: usize,
    pub eos: bool,
    pub dead: bool,
    line: String,
}

fn obs_json(s: &mut String, o: &Obs) {
    let _ = write!(s, "\"res\":\"{}\",\"ml\":{},\"ma\":{},\"read\":{},\"written\":{},\"out\":", o.res, o.ml, o.ma, o.read, o.written);
    js_u16(s, &o.out);
}

impl<'a> Hist<'a> {
    pub fn begin(sh: &mut Shards, cfg: &'a HistCfg, bound: bool) -> Hist<'a> {
        let h = sh.begin();
        let n = if cfg.twins { 3 } else { 1 };
        let decs = (0..n).map(|_| new_decoder(cfg.enc, cfg.mode)).collect();
        let line = format!(
            "{{\"ev\":\"N\",\"h\":{},\"enc\":\"{}\",\"mode\":\"{}\",\"sink\":\"{}\",\"repl\":{},\"bound\":{}}}",
            h,
            cfg.enc.name(),
            cfg.mode.name(),
            cfg.sink.name(),
            cfg.repl,
            bound
        );
        sh.line(&line);
        let man = if ov().manual && cfg.repl && (cfg.sink == Sink::Utf8 || cfg.sink == Sink::Utf16) { Some(new_decoder(cfg.enc, cfg.mode)) } else { None };
        Hist { cfg, decs, man, pos: 0, calls: 0, eos: false, dead: false, line: String::new() }
    }

    pub fn latin1(&mut self, sh: &mut Shards, bytes: &[u8]) {
        let d = &self.decs[0];
        let r = catch_unwind(AssertUnwindSafe(|| d.latin1_byte_compatible_up_to(bytes)));
        let ret: i64 = match r {
            Ok(Some(n)) => n as i64,
            Ok(None) => -1,
            Err(_) => -2,
        };
        let s = &mut self.line;
        s.clear();
        s.push_str("{\"ev\":\"L\",\"bytes\":");
        js_u8(s, bytes);
        let _ = write!(s, ",\"ret\":{}}}", ret);
        sh.line(s);
    }

    /// one call with src = stream[pos..end]; returns the observation of the main decoder
    pub fn step(&mut self, sh: &mut Shards, stream: &[u8], end: usize, capspec: CapSpec, last: bool) -> Obs {
        let cfg = self.cfg;
        let end = end.max(self.pos).min(stream.len());
        let src = &stream[self.pos..end];
        if cfg.latin1 > 0 && self.calls % cfg.latin1 == 0 {
            let hi = if cfg.lat_src { end } else { (self.pos + 24).min(stream.len()) };
            let bytes = stream[self.pos..hi].to_vec();
            self.latin1(sh, &bytes);
        }
        let (cap, q) = match capspec {
            CapSpec::Fixed(c) => (c, false),
            CapSpec::Query(extra) => match query(&self.decs[0], cfg.sink, cfg.repl, src.len()) {
                Some(v) if v < (1 << 24) => (v + extra, true),
                _ => (cfg.sink.min_cap(), false),
            },
        };
        let fills = [0x00u8, 0xFF, 0xA5];
        let mut obs: Vec<Obs> = Vec::new();
        for (i, d) in self.decs.iter_mut().enumerate() {
            obs.push(call(d, cfg.sink, cfg.repl, src, cap, last, fills[i], cfg.unit, cfg.prelen));
        }
        let o = obs[0].clone();
        let man = match self.man.as_mut() {
            Some(d) if o.res != 'P' => Some(call_manual(d, cfg.sink, src, cap, last)),
            _ => None,
        };
        let s = &mut self.line;
        s.clear();
        s.push_str("{\"ev\":\"D\",\"src\":");
        js_u8(s, src);
        let _ = write!(s, ",\"cap\":{},\"last\":{},", o.cap, last);
        obs_json(s, &o);
        let _ = write!(s, ",\"had\":{},\"enc\":\"{}\",\"q\":{},\"guard\":{},\"alt\":[", o.had, self.decs[0].encoding().name(), q, obs.iter().all(|x| x.guard));
        for (i, a) in obs[1..].iter().enumerate() {
            if i > 0 {
                s.push(',');
            }
            s.push('{');
            obs_json(s, a);
            s.push('}');
        }
        s.push(']');
        if let Some(mo) = &man {
            let _ = write!(s, ",\"man\":{{\"res\":\"{}\",\"read\":{},\"written\":{},\"had\":{},\"out\":", mo.res, mo.read, mo.written, mo.had);
            js_u16(s, &mo.out);
            s.push('}');
            if mo.res == 'P' || mo.res == 'X' {
                self.man = None;
            }
        }
        match cfg.sink {
            Sink::Str => {
                s.push_str(",\"post\":");
                js_u8(s, &o.post);
            }
            Sink::String_ => {
                s.push_str(",\"pre\":");
                js_u8(s, &o.pre);
                s.push_str(",\"post\":");
                js_u8(s, &o.post);
                let _ = write!(s, ",\"same\":{}", o.same);
            }
            _ => {}
        }
        s.push('}');
        sh.line(s);
        self.calls += 1;
        if o.res == 'P' {
            self.dead = true;
        } else {
            self.pos += o.read.min(src.len());
        }
        if last {
            self.eos = true;
        }
        o
    }

    pub fn fault(&mut self, sh: &mut Shards, kind: &str) {
        sh.line(&format!("{{\"ev\":\"F\",\"kind\":\"{}\"}}", kind));
        self.dead = true;
    }
}

/// apply command-line overrides to a history configuration
pub fn overridden(cfg: &HistCfg) -> HistCfg {
    let o = ov();
    let mut c = cfg.clone();
    let r = rot();
    if let Some(s) = &o.sinks {
        c.sink = Sink::from_name(&s[r % s.len()]);
    }
    if let Some(m) = &o.modes {
        c.mode = Mode::from_name(&m[(r / 3) % m.len()]);
    }
    if let Some(x) = o.repl {
        c.repl = x;
    }
    if o.twins {
        c.twins = true;
    }
    if o.latin1 {
        c.latin1 = 1;
    }
    c
}
/// "mixq": calls alternate between a small fixed capacity (0 .. minimum+1, so that states behind an OutputFull are
/// reached) and the queried capacity (the call under test for C07)
pub fn cap_override_i(sink: Sink, c: CapSpec, i: usize, salt: usize) -> CapSpec {
    if ov().cap.as_deref() == Some("mixq") {
        if (i + salt) % 2 == 0 {
            CapSpec::Fixed((salt / 2 + i / 2) % (sink.min_cap() + 2))
        } else {
            CapSpec::Query(0)
        }
    } else {
        cap_override(sink, c)
    }
}
pub fn cap_override(sink: Sink, c: CapSpec) -> CapSpec {
    match ov().cap.as_deref() {
        Some("min") => CapSpec::Fixed(sink.min_cap()),
        Some("min1") => CapSpec::Fixed(sink.min_cap() + 1),
        Some("query") => CapSpec::Query(0),
        _ => c,
    }
}

/// The documented caller loop over a chunked stream: for each chunk keep calling, re-pushing the
/// unconsumed input, until InputEmpty.  `caps(i)` gives the capacity of the i-th call.
pub fn run_chunked(
    sh: &mut Shards,
    cfg: &HistCfg,
    stream: &[u8],
    chunk_ends: &[usize],
    caps: &mut dyn FnMut(usize) -> CapSpec,
    empty_last: bool,
    reuse_after_done: bool,
) {
    if thinned() {
        return;
    }
    let old_min = cfg.sink.min_cap();
    let cfg = &overridden(cfg);
    let sink = cfg.sink;
    let delta = sink.min_cap() - old_min.min(sink.min_cap());
    let shrink = old_min - sink.min_cap().min(old_min);
    let caps0 = caps;
    // capacities are meant relative to the sink's documented minimum: keep that when the sink is overridden
    let salt = rot();
    let mut caps = |i: usize| {
        cap_override_i(
            sink,
            match caps0(i) {
                CapSpec::Fixed(c) => CapSpec::Fixed(c + delta - shrink.min(c)),
                q => q,
            },
            i,
            salt,
        )
    };
    let mut h = Hist::begin(sh, cfg, true);
    let limit = 8 * stream.len() + 64;
    let n = stream.len();
    let mut ends: Vec<usize> = chunk_ends.to_vec();
    if ends.last() != Some(&n) {
        ends.push(n);
    }
    let total_chunks = ends.len();
    for (ci, &e) in ends.iter().enumerate() {
        let is_last_chunk = ci + 1 == total_chunks;
        let last = is_last_chunk && !empty_last;
        loop {
            if h.calls > limit {
                h.fault(sh, "livelock");
                return;
            }
            let c = caps(h.calls);
            let o = h.step(sh, stream, e, c, last);
            if h.dead {
                return;
            }
            if o.res == 'I' {
                break;
            }
        }
    }
    if empty_last {
        loop {
            if h.calls > limit {
                h.fault(sh, "livelock");
                return;
            }
            let c = caps(h.calls);
            let o = h.step(sh, stream, n, c, true);
            if h.dead {
                return;
            }
            if o.res == 'I' {
                break;
            }
        }
    }
    if reuse_after_done {
        let c = caps(h.calls);
        h.step(sh, stream, n, c, true);
    }
}

/// Random driver: arbitrary re-cuts (shorter, longer, empty), capacities, queries; ends with `last`.
pub fn run_random(sh: &mut Shards, cfg: &HistCfg, stream: &[u8], rng: &mut Rng, maxchunk: usize, capmax: usize) {
    if thinned() {
        return;
    }
    let cfg = &overridden(cfg); // capacities below are derived from the overridden sink's minimum
    let mut h = Hist::begin(sh, cfg, false);
    let n = stream.len();
    let limit = 8 * n + 64;
    let minc = cfg.sink.min_cap();
    loop {
        if h.calls > limit {
            // a random driver may legitimately dawdle with empty calls; stop without judgement
            return;
        }
        let (end, last) = if h.eos {
            (n, true)
        } else {
            let e = (h.pos + rng.below(maxchunk + 1)).min(n);
            (e, e == n && rng.chance(1, 2))
        };
        let c = match rng.below(10) {
            0 => CapSpec::Query(0),
            1 => CapSpec::Query(rng.below(3)),
            2 => CapSpec::Fixed(minc + capmax + 64),
            _ => CapSpec::Fixed(minc + rng.below(capmax + 1)),
        };
        let c = cap_override(cfg.sink, c);
        let o = h.step(sh, stream, end, c, last);
        if h.dead {
            return;
        }
        if o.res == 'I' && last {
            return;
        }
    }
}

/// Execute caller plans on the real code.  A plan line is
/// {"ev":"PLAN","kind":"dec","h":..,"enc":..,"mode":..,"sink":..,"repl":..,"stream":[..],"calls":[[end,cap,last],..],"lat":bool}
/// Each call presents stream[pos..end] (pos = bytes consumed so far); when the plan runs out before the stream
/// is finished the documented loop continues with the last capacity.  Plans come from recorded histories
/// (replay of a violation) and from TLC-generated behaviours of the specification (spec -> impl).
pub fn replay(sh: &mut Shards, path: &str) {
    use serde_json::Value;
    let text = std::fs::read_to_string(path).expect("plan file");
    for l in text.lines() {
        let v: Value = match serde_json::from_str(l) {
            Ok(v) => v,
            Err(_) => continue,
        };
        if v["ev"].as_str() != Some("PLAN") || v["kind"].as_str() != Some("dec") {
            continue;
        }
        let e = crate::inputs::enc(v["enc"].as_str().unwrap());
        let mode = match v["mode"].as_str().unwrap() {
            "sniff" => Mode::Sniff,
            "remove" => Mode::Remove,
            _ => Mode::Off,
        };
        let sink = match v["sink"].as_str().unwrap() {
            "utf8" => Sink::Utf8,
            "utf16" => Sink::Utf16,
            "str" => Sink::Str,
            _ => Sink::String_,
        };
        let cfg = HistCfg {
            enc: e,
            mode,
            sink,
            repl: v["repl"].as_bool().unwrap(),
            twins: false,
            latin1: if v["lat"].as_bool().unwrap_or(false) { 1 } else { 0 },
            lat_src: v["latsrc"].as_bool().unwrap_or(false),
            unit: 3,
            prelen: v["prelen"].as_u64().unwrap_or(0) as usize,
        };
        let stream: Vec<u8> = v["stream"].as_array().unwrap().iter().map(|x| x.as_u64().unwrap() as u8).collect();
        let mut h = Hist::begin(sh, &cfg, false);
        let limit = 8 * stream.len() + 64;
        let mut lastcap = cfg.sink.min_cap();
        let mut finished = false;
        for c in v["calls"].as_array().unwrap() {
            let end = c[0].as_u64().unwrap() as usize;
            // a negative capacity means "the value the matching max_*_buffer_length query returns now"
            let capi = c[1].as_i64().unwrap();
            let cap = if capi < 0 { lastcap } else { capi as usize };
            let last = c[2].as_bool().unwrap();
            lastcap = cap;
            let o = h.step(sh, &stream, end, if capi < 0 { CapSpec::Query(0) } else { CapSpec::Fixed(cap) }, last);
            if h.dead {
                break;
            }
            if o.res == 'I' && last {
                finished = true;
                break;
            }
        }
        while !finished && !h.dead && v["finish"].as_bool().unwrap_or(true) {
            if h.calls > limit {
                h.fault(sh, "livelock");
                break;
            }
            let o = h.step(sh, &stream, stream.len(), CapSpec::Fixed(lastcap.max(cfg.sink.min_cap())), true);
            if o.res == 'I' {
                finished = true;
            }
        }
    }
}
